#!/usr/bin/env python3
import json,sys
e=json.load(open('/verif/evidence/%s.json'%sys.argv[1]))
h=e['coverage']['harnesses']
rows=sorted(((v.get('duration_ms') or 0)/1000,(v.get('symex_s') or 0),(v.get('solver_s') or 0),k) for k,v in h.items())
for r in rows[-int(sys.argv[2]) if len(sys.argv)>2 else -15:]: print("%7.1fs symex %6.1f solver %6.1f  %s"%r)
print('total',sum(r[0] for r in rows),'n',len(rows),'wall',e['wall_s'])
