#!/usr/bin/env python3
"""Prints the markdown table of seeded mutations (DESIGN.md section 7) from seeded/*/meta.json."""
import json, os, glob, re
rows = []
for d in sorted(glob.glob("/verif/seeded/*")):
    mp = os.path.join(d, "meta.json")
    if not os.path.exists(mp):
        continue
    m = json.load(open(mp))
    name = os.path.basename(d)
    needs = m.get("needs", "")
    # first descriptive line of the notes
    first = ""
    for ln in needs.splitlines():
        ln = ln.strip(" #*-")
        if len(ln) > 25:
            first = ln
            break
    first = re.sub(r"\s+", " ", first)[:150]
    conf = m.get("confirm", {}).get("confirmed")
    res = []
    for pid, r in sorted(m.get("checks", {}).items()):
        res.append("%s: %s (%ds)" % (pid, "caught" if r.get("detected") else ("exit %s — MISSED" % r.get("exit")), r.get("wall_s", 0)))
    rows.append("| %s | %s | %s | %s | %s |" % (name, ", ".join(m.get("breaks", [])), first.replace("|", "/"), "yes" if conf else "no", "; ".join(res) or "not run"))
print("| mutation | breaks | what it needs | confirmed | quick checks run against it |")
print("|---|---|---|---|---|")
print("\n".join(rows))
