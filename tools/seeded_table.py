#!/usr/bin/env python3
"""Prints the markdown table of seeded mutations (DESIGN.md section 7) from seeded/*/meta.json."""
import json, os, glob, re
rows = []
for d in sorted(glob.glob("/verif/seeded/*")):
    mp = os.path.join(d, "meta.json")
    if not os.path.exists(mp):
        continue
    m = json.load(open(mp))
    name = os.path.basename(d)
    needs = m.get("needs", "")
    # first descriptive line of the notes
    first = ""
    for ln in needs.splitlines():
        ln = ln.strip(" #*-")
        if len(ln) > 25:
            first = ln
            break
    first = re.sub(r"\s+", " ", first)[:150]
    conf = m.get("confirm", {}).get("confirmed")
    res = []
    for pid, r in sorted(m.get("checks", {}).items()):
        pid = pid.rstrip("+")
        if not m.get("breaks"):
            verdict = "no alarm" if r.get("exit") == 0 else ("exit %s (inconclusive)" % r.get("exit") if r.get("exit") == 2 else "exit %s — FALSE ALARM" % r.get("exit"))
        elif r.get("detected"):
            verdict = "caught"
        elif pid not in m.get("breaks", []) and r.get("exit") == 0:
            verdict = "exit 0 (property holds under this mutation)"
        else:
            verdict = "exit %s — MISSED" % r.get("exit")
        extra = ""
        if r.get("restricted_to_harnesses_matching"):
            extra += ", only harnesses matching `%s`" % r["restricted_to_harnesses_matching"]
        if r.get("tier") and r.get("tier") != "quick":
            extra += ", %s tier" % r["tier"]
        res.append("%s: %s (%ds%s)" % (pid, verdict, r.get("wall_s", 0), extra))
    rows.append("| %s | %s | %s | %s | %s |" % (name, ", ".join(m.get("breaks", [])), first.replace("|", "/"), "yes" if conf else "no", "; ".join(res) or "not run"))
print("| mutation | breaks | what it needs | confirmed | quick checks run against it |")
print("|---|---|---|---|---|")
print("\n".join(rows))

if __name__ == "__main__":
    import sys
    if len(sys.argv) > 1 and sys.argv[1] == "--splice":
        # replace the results table in DESIGN.md (between the marker line and section 8)
        p = "/verif/DESIGN.md"
        t = open(p).read()
        a = t.index("| mutation | breaks | what it needs | confirmed |")
        b = t.index("## 8. Limits")
        tbl = "| mutation | breaks | what it needs | confirmed | checks run against it |\n|---|---|---|---|---|\n" + "\n".join(rows) + "\n\n"
        open(p, "w").write(t[:a] + tbl + t[b:])
