#!/bin/bash
# runs tools/matrix.txt lines, two at a time
cd /verif
run_line() { set -- $1; d=$1; shift; python3 tools/seeded.py run seeded/$d "$@" >> /tmp/matrix.log 2>&1; }
export -f run_line
grep -v '^#' tools/matrix.txt | grep . | xargs -P 2 -I{} bash -c 'run_line "{}"'
echo MATRIX-DONE >> /tmp/matrix.log
