#!/bin/bash
# runs tools/matrix.txt lines, N at a time (default 3), each check with --jobs J (default 6)
cd /verif
N=${1:-3}; J=${2:-6}
run_line() { set -- $1; d=$1; shift; python3 tools/seeded.py run seeded/$d "$@" >> /tmp/matrix.log 2>&1; }
export -f run_line
grep -v '^#' ${3:-tools/matrix.txt} | grep . | xargs -P $N -I{} bash -c 'run_line "{}"'
echo MATRIX-DONE >> /tmp/matrix.log
