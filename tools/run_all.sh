#!/bin/bash
# run every quick (or $1=thorough) check on the clean tree, sequentially; summary in /tmp/run_all.log
cd /verif
tier=${1:-quick}
: > /tmp/run_all.log
for p in C19 C18 C17 C09 C06 C07 C05 C03 C02 C08 C04 C01 C11 C14 C15 C10 C13 C12 C16; do
  s=$(date +%s)
  python3 check.py $p --tier $tier > /tmp/run_all.$p.out 2>&1
  rc=$?
  echo "$p rc=$rc $(( $(date +%s) - s ))s $(grep -c KNOWN-FINDING /tmp/run_all.$p.out) kf :: $(grep -E 'held on|INCONCLUSIVE|VIOLATION' /tmp/run_all.$p.out | head -3 | cut -c1-200 | tr '\n' ' ')" >> /tmp/run_all.log
done
echo ALL-DONE >> /tmp/run_all.log
