#!/usr/bin/env python3
"""Confirm a seeded mutation and run checks against it.

  seeded.py confirm <seeded/dir>          scratch worktree: suite green with patch, demo fails with / passes without
  seeded.py run <seeded/dir> <PID> [...]  apply to /repo, run the quick checks, undo; records results in meta.json
"""
import json
import os
import re
import shutil
import subprocess
import sys
import time

VERIF = "/verif"
REPO = "/repo"


def sh(cmd, cwd=None, timeout=None):
    p = subprocess.run(cmd, cwd=cwd, shell=isinstance(cmd, str), stdout=subprocess.PIPE, stderr=subprocess.STDOUT,
                       text=True, timeout=timeout)
    return p.returncode, p.stdout


def load_meta(d):
    p = os.path.join(d, "meta.json")
    return json.load(open(p)) if os.path.exists(p) else {}


def save_meta(d, m):
    json.dump(m, open(os.path.join(d, "meta.json"), "w"), indent=1)


def test_counts(out):
    tot = [0, 0]
    for m in re.finditer(r"test result: \w+\. (\d+) passed; (\d+) failed", out):
        tot[0] += int(m.group(1))
        tot[1] += int(m.group(2))
    return tot


def confirm(d):
    d = os.path.abspath(d)
    wt = "/tmp/sv-" + os.path.basename(d)
    sh(["git", "-C", REPO, "worktree", "remove", "--force", wt])
    rc, out = sh(["git", "-C", REPO, "worktree", "add", "-q", wt, "HEAD"])
    res = {}
    try:
        demo = os.path.join(d, "demo.rs")
        has_demo = os.path.exists(demo)
        rc, out = sh(["git", "apply", os.path.join(d, "patch.diff")], cwd=wt)
        res["applies"] = rc == 0
        if rc != 0:
            print(out)
            return res
        rc, out = sh("cargo test --offline 2>&1", cwd=wt, timeout=900)
        p, f = test_counts(out)
        res["suite_with_patch"] = {"passed": p, "failed": f, "rc": rc}
        if has_demo:
            os.makedirs(os.path.join(wt, "tests"), exist_ok=True)
            shutil.copy(demo, os.path.join(wt, "tests", "demo.rs"))
            rc, out = sh("cargo test --offline --test demo 2>&1", cwd=wt, timeout=900)
            p, f = test_counts(out)
            res["demo_with_patch"] = {"passed": p, "failed": f, "rc": rc}
            sh(["git", "checkout", "--", "src", "Cargo.toml"], cwd=wt)
            rc, out = sh("cargo test --offline --test demo 2>&1", cwd=wt, timeout=900)
            p, f = test_counts(out)
            res["demo_clean"] = {"passed": p, "failed": f, "rc": rc}
        res["confirmed"] = bool(res["suite_with_patch"]["failed"] == 0 and res["suite_with_patch"]["rc"] == 0 and
                                (not has_demo or (res["demo_with_patch"]["rc"] != 0 and res["demo_clean"]["rc"] == 0)))
    finally:
        sh(["git", "-C", REPO, "worktree", "remove", "--force", wt])
        shutil.rmtree(wt, ignore_errors=True)
    m = load_meta(d)
    m["confirm"] = res
    save_meta(d, m)
    print(json.dumps(res))
    return res


def run(d, pids, jobs=os.environ.get("SEEDED_JOBS", "6")):
    """Run the quick checks against a scratch copy of /repo's HEAD with the patch applied
    (VERIF_REPO / VERIF_OUT), so neither /repo nor the committed evidence is touched."""
    d = os.path.abspath(d)
    name = os.path.basename(d)
    wt = "/tmp/sr-%s-%d" % (name, os.getpid())
    out = "/tmp/so-%s-%d" % (name, os.getpid())
    sh(["git", "-C", REPO, "worktree", "remove", "--force", wt])
    shutil.rmtree(out, ignore_errors=True)
    rc, o = sh(["git", "-C", REPO, "worktree", "add", "-q", wt, "HEAD"])
    shutil.copy(os.path.join(REPO, "Cargo.lock"), os.path.join(wt, "Cargo.lock"))
    rc, o = sh(["git", "apply", os.path.join(d, "patch.diff")], cwd=wt)
    if rc != 0:
        sys.exit("patch does not apply: " + o)
    m = load_meta(d)
    runs = m.setdefault("checks", {})
    env = dict(os.environ, VERIF_REPO=wt, VERIF_OUT=out)
    try:
        for pid in pids:
            t0 = time.time()
            p = subprocess.run(["python3", os.path.join(VERIF, "check.py"), pid, "--tier", os.environ.get("SEEDED_TIER", "quick"), "--jobs", jobs],
                               stdout=subprocess.PIPE, stderr=subprocess.STDOUT, text=True, env=env, timeout=4 * 3600)
            rc, o = p.returncode, p.stdout
            lines = [l for l in o.splitlines() if l.startswith(("VIOLATION", "INCONCLUSIVE", "harness ", "  reproduced"))]
            if rc != 0 and not any(l.startswith("VIOLATION") for l in lines):
                open("/tmp/seeded-fail-%s-%s.log" % (name, pid), "w").write(o)
            key = pid
            if os.environ.get("VERIF_ONLY") and pid in runs and not runs[pid].get("restricted_to_harnesses_matching"):
                key = "%s+" % pid  # keep the record of an earlier unrestricted run
            runs[key] = {"exit": rc, "detected": rc == 1 and any(l.startswith("VIOLATION") for l in lines),
                         "wall_s": round(time.time() - t0), "lines": [l[:300].replace(out, "/verif") for l in lines[:8]],
                         "verif_commit": sh(["git", "-C", VERIF, "rev-parse", "--short", "HEAD"])[1].strip()}
            if os.environ.get("VERIF_ONLY"):
                runs[key]["restricted_to_harnesses_matching"] = os.environ["VERIF_ONLY"]
            if os.environ.get("SEEDED_TIER"):
                runs[key]["tier"] = os.environ["SEEDED_TIER"]
            print(name, pid, "exit", rc, "DETECTED" if runs[key]["detected"] else "MISSED", "%ds" % runs[key]["wall_s"], flush=True)
            for l in lines[:5]:
                print("   ", l[:220], flush=True)
    finally:
        cur = load_meta(d)
        cur.setdefault("checks", {}).update(runs)
        save_meta(d, cur)
        sh(["git", "-C", REPO, "worktree", "remove", "--force", wt])
        shutil.rmtree(wt, ignore_errors=True)
        shutil.rmtree(out, ignore_errors=True)


if __name__ == "__main__":
    if sys.argv[1] == "confirm":
        confirm(sys.argv[2])
    elif sys.argv[1] == "run":
        run(sys.argv[2], sys.argv[3:])


def imp(pid, x, root="/tmp/wt", name=None):
    src = "%s/%s/out/%s" % (root, pid, x)
    d = os.path.join(VERIF, "seeded", "%s-%s" % (pid, name or x))
    os.makedirs(d, exist_ok=True)
    for f in ("patch.diff", "demo.rs", "notes.md"):
        if os.path.exists(os.path.join(src, f)):
            shutil.copy(os.path.join(src, f), os.path.join(d, f))
    m = load_meta(d)
    m.setdefault("breaks", [pid])
    m["origin"] = "sub-agent given only the text of %s and a scratch worktree" % pid
    if os.path.exists(os.path.join(d, "notes.md")):
        m["needs"] = open(os.path.join(d, "notes.md")).read()[:1500]
    save_meta(d, m)
    return d


if __name__ == "__main__" and sys.argv[1] == "import":
    d = imp(sys.argv[2], sys.argv[3])
    confirm(d)

if __name__ == "__main__" and sys.argv[1] == "import2":
    # second round: /tmp/wt2/<pid>/out/A|B  ->  seeded/<pid>-C|D
    d = imp(sys.argv[2], sys.argv[3], root="/tmp/wt2", name={"A": "C", "B": "D"}[sys.argv[3]])
    confirm(d)
if __name__ == "__main__" and sys.argv[1] == "import3":
    d = imp(sys.argv[2], sys.argv[3], root="/tmp/wt3", name={"A": "C", "B": "D"}[sys.argv[3]])
    confirm(d)
if __name__ == "__main__" and sys.argv[1] == "import4":
    # fourth round: /tmp/wt4/<pid>/out/A|B  ->  seeded/<pid>-E|F
    d = imp(sys.argv[2], sys.argv[3], root="/tmp/wt4", name={"A": "E", "B": "F"}[sys.argv[3]])
    confirm(d)
