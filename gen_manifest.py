#!/usr/bin/env python3
"""Regenerates MANIFEST.json from the table below (kept next to the driver so the two cannot drift)."""
import json
import os
import subprocess

VERIF = os.path.dirname(os.path.abspath(__file__))

# property -> (claimed?, level text, level note, design ref)
P = {
    "C01": ("Bounded model checking of every encoder followed by the real decoder on exactly the encoded bytes: all arguments, both addresses and the receiving context are SAT variables; message bodies are bounded per harness (sizes in the harness names). UNSAT = no argument within the bound breaks the round trip.",
            "Bodies bounded (DESIGN 3.4); trusted oracle: expected payload = the argument bytes; open known findings are excluded by input class and witnessed separately.", "5/C01"),
    "C02": ("Bounded model checking of decode_packet / process_packet on arbitrary byte strings against an independent bit-serial CRC-8, plus a symbolic burst-corruption harness; state and buffer effects of a bad-PEC input are asserted from an arbitrary pre-state (one inductive step covers every history).",
            "Lengths bounded (DESIGN 3.4); trusted: ref_crc8; selector cell reached through the verif-hooks accessor.", "5/C02"),
    "C03": ("Bounded model checking of every encoder: last byte == independent bit-serial CRC-8 of all previous bytes, for all arguments; body lengths are concrete per harness instance.",
            "Trusted: ref_crc8 (8 lines). Lengths outside the listed instances are outside the claim.", "5/C03"),
    "C04": ("Bounded model checking of bytes 0..3, byte count, returned length and get_length on every >=3-byte prefix for every encoder; oversize bodies must be refused; panics of the encoder or the probe on these paths count as violations.",
            "7-bit addresses as the property states; body sizes per harness instance.", "5/C04"),
    "C05": ("Bounded model checking of bytes 4..8 of every encoder's output for all 256 source addresses and destination values (every packet writer also at its maximum body size), and of the transport header of the responses process_packet writes for every flag/sequence/tag combination of the request.",
            "Expected header bytes written from DSP0236 table 1.", "5/C05"),
    "C06": ("Bounded model checking of the body bytes of all 17 request encoders against a table written from DSP0236 clause 12, every parameter symbolic; complete (fixed sizes).",
            "Trusted: the expected-layout table in the harness.", "5/C06"),
    "C07": ("Bounded model checking of the body bytes of the six response encoders for every completion code, enum combination, stored EID, UUID, type list 0..30 and vendor field 0..7 bytes; the responses process_packet writes (flag bits, command echo, completion code, EID / version fields) from an arbitrary context state.",
            "Trusted: the expected-layout expressions in the harness.", "5/C07"),
    "C08": ("Bounded model checking of vendor_defined (every format byte, every 32-bit id) and the PCI/IANA/SPDM/secured packet writers: bytes from the type byte on equal header-then-body verbatim.",
            "Body lengths bounded per instance.", "5/C08"),
    "C09": ("Bounded model checking of decode_packet against an independent reference decoder over arbitrary byte strings (symbolic length) and arbitrary contexts: accept-iff-well-formed, exact payload slice, truthful errors.",
            "Lengths bounded (DESIGN 3.4); classes the property itself excludes (too-short inputs, responses to 0x02/0x08/0x09, known panic classes) are assumed away.", "5/C09"),
    "C10": ("Bounded model checking of panic-freedom (index, slice, overflow, unreachable!, unimplemented!, unwrap) of decode_packet, get_length and process_packet on arbitrary input with overflow checks on; open findings are excluded by input class and each has a witness harness keyed to its panic site.",
            "Lengths bounded; valid configuration (<=30 types, vendor formats 0/1, >=1 vendor set) and >=64-byte response buffer as the property states.", "5/C10"),
    "C11": ("Bounded model checking of one process_packet call on an arbitrary packet from an arbitrary context state, compared with decode_packet on the same bytes; response-buffer frame condition byte by byte.",
            "Concrete packet lengths per instance (DESIGN 3.4).", "5/C11"),
    "C12": ("Bounded model checking of the response to every accepted answerable request against a reference frame built from the request bytes and the responder address.",
            "Precondition as in the property text (source address and source EID name the same requester, Set EID 0x01..0xFE).", "5/C12"),
    "C13": ("One inductive step from an arbitrary context state for every operation kind (process, decode, accessor, encoder) against the specification model of the EID; covers histories of any length.",
            "The listed cells are the whole mutable state (re-checked textually by the driver on every run).", "5/C13"),
    "C14": ("Bounded model checking of Get Vendor Defined Message Support on a context with 1..16 arbitrary vendor sets from an arbitrary pre-state (selector cell set through the hook): answer is a function of (configuration, selector) only and next selector is i+1 / 0xFF.",
            "n <= 16 sets; formats 0/1; selector cell reached through the verif-hooks accessor.", "5/C14"),
    "C15": ("Bounded model checking of the three identity answers from an arbitrary context state: message type list, UUID, version entry.",
            "Type list lengths per instance (DESIGN 3.4).", "5/C15"),
    "C16": ("Bounded model checking of every encoder into a buffer with arbitrary prior content and symbolic spare capacity: bytes beyond len unchanged, bytes below len equal a reference frame that mentions neither, documented-invalid arguments refused with the buffer untouched; encoder panic-freedom.",
            "Body sizes per instance.", "5/C16"),
    "C17": ("Complete bounded model checking of get_length over a 259-byte arbitrary array with arbitrary prefix length 0..=259 and arbitrary context: result equals a reference that reads three bytes only.",
            "Inputs longer than 259 bytes are outside SMBus and outside the claim.", "5/C17"),
    "C18": ("Complete bounded model checking of every getter, setter and checked constructor of the seven header views over all raw buffers and all written values against byte-level expressions of the DSP0236/DSP0237 layouts.",
            "Trusted: the expected byte-level expressions.", "5/C18"),
    "C19": ("Complete model checking of the three From<u8> conversions over all 256 byte values.",
            "Completion codes >= 6 are outside the property (C10 finding).", "5/C19"),
}

BUILT = json.load(open(os.path.join(VERIF, "built.json")))


def main():
    try:
        hook_commits = subprocess.run(["git", "-C", "/repo", "log", "--format=%H", "--grep", "^verif hook"],
                                      stdout=subprocess.PIPE, text=True).stdout.split()
    except Exception:
        hook_commits = []
    checks = []
    na = []
    for pid, (text, note, ref) in P.items():
        if pid not in BUILT:
            na.append({"property_id": pid, "reason": "check not built yet in this round (applicable; planned in DESIGN.md section " + ref + ")"})
            continue
        checks.append({
            "property_id": pid,
            "quick_cmd": "python3 /verif/check.py %s --tier quick" % pid,
            "thorough_cmd": "python3 /verif/check.py %s --tier thorough" % pid,
            "evidence_file": "/verif/evidence/%s.json" % pid,
            "replay_cmd_template": "python3 /verif/check.py --replay {path}",
            "engine": "kani-cbmc",
            "level_claimed": {"category": "model_checking", "text": text, "design_ref": "DESIGN.md section " + ref},
            "level_note": note + " Trusted base: rustc MIR -> Kani 0.68 -> CBMC 6.11 -> CaDiCaL. A pass means: no input within the stated bounds violates the assertion; it is not a proof for all inputs.",
            "technique": "bounded model checking of the compiled library (Kani/CBMC, SAT) with kani::any() inputs; counterexamples replayed natively",
        })
    m = {
        "version": 1,
        "setup_cmd": "python3 /verif/check.py --setup",
        "hooks": {
            "guard": "cargo feature verif-hooks (libmctp)",
            "enable": "the harness crate /verif/harness depends on libmctp with features=[\"verif-hooks\"]; cargo kani / cargo build compile /repo's working tree with it",
            "baseline_off_cmd": "cd /repo && cargo test --workspace --no-fail-fast --offline",
            "source_commits": hook_commits,
            "add_only": True,
        },
        "engines": [{
            "name": "kani-cbmc", "path": "/verif/check.py",
            "serves_properties": sorted(BUILT),
            "kind_free_text": "Kani 0.68 -> CBMC 6.11 -> CaDiCaL bounded model checker over the compiled libmctp MIR; harness crate /verif/harness; python driver classifies checks, replays counterexamples natively, writes evidence",
        }],
        "checks": checks,
        "not_applicable": na,
        "notes": "All checks rebuild libmctp from /repo's working tree on every run. Known findings: /verif/known_findings.txt. Exit 2 = inconclusive (never reported as pass).",
    }
    with open(os.path.join(VERIF, "MANIFEST.json"), "w") as f:
        json.dump(m, f, indent=1)
    print("MANIFEST.json: %d checks, %d not yet claimed" % (len(checks), len(na)))


if __name__ == "__main__":
    main()
