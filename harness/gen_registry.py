#!/usr/bin/env python3
"""Writes src/registry.rs: the list of harness instances (body × property × size).
Run by hand when the list changes; the output is committed."""
import os

HERE = os.path.dirname(os.path.abspath(__file__))
L = []  # (name, unwind, own/ign, expr)


def add(name, unwind, own, expr):
    assert name not in [x[0] for x in L], name
    L.append((name, unwind, own, expr))


# ---------------------------------------------------------------- C19 / C18 / C17
add("c19__q__command", 1, "own", "conv::command::<_, C19>")
add("c19__q__msgtype", 1, "own", "conv::msgtype::<_, C19>")
add("c19__q__completion", 1, "own", "conv::completion::<_, C19>")
for v in ["smbus_header", "transport_header", "body_header", "control_header", "routing_entry", "vendor_headers"]:
    add("c18__q__%s" % v, 40, "own", "views::%s::<_, C18>" % v)
add("c17__q__probe259", 262, "own", "getlen::probe::<_, C17, 259>")
add("c10__q__getlen259", 262, "own", "getlen::probe::<_, C10, 259>")

# ---------------------------------------------------------------- decode_packet on arbitrary bytes
for pid, own, n in [("C02", "ign", 32), ("C09", "ign", 32), ("C10", "own", 32), ("C13", "ign", 20)]:
    add("%s__q__dec_sym%d" % (pid.lower(), n), n + 3, own, "dec::sym::<_, %s, %d>" % (pid, n))
for pid, own in [("C02", "ign"), ("C09", "ign"), ("C10", "own")]:
    add("%s__t__dec_sym64" % pid.lower(), 67, own, "dec::sym::<_, %s, 64>" % pid)
    for n in [128, 255, 256, 257, 258, 259]:
        # the SMBus maximum (259 bytes, byte count 255) is a boundary of its own: quick tier
        add("%s__%s__dec_len%d" % (pid.lower(), "q" if n == 259 else "t", n), n + 3, own, "dec::conc::<_, %s, %d>" % (pid, n))
# history / buffer-identity independence of the decoder
add("c09__q__dec_twice16", 20, "ign", "hist::dec_twice::<_, C09, 16>")
add("c02__q__dec_twice16", 20, "ign", "hist::dec_twice::<_, C02, 16>")
add("c09__t__dec_twice32", 36, "ign", "hist::dec_twice::<_, C09, 32>")
# 2-safety: two unrelated contexts give the same verdict on the same bytes
add("c09__q__dec_two_ctx20", 24, "ign", "hist::dec_two_ctx::<_, C09, 20>")
add("c09__t__dec_two_ctx40", 44, "ign", "hist::dec_two_ctx::<_, C09, 40>")
# seed-chosen spot lengths: tier "s" — the driver runs exactly one per (property, group), index VERIF_SEED % count
for pid, own in [("C02", "ign"), ("C09", "ign"), ("C10", "own")]:
    for n in range(33, 128):
        add("%s__s__dec_len%d" % (pid.lower(), n), n + 3, own, "dec::conc::<_, %s, %d>" % (pid, n))
add("c10__w__dec_req_unimpl", 19, "own", "dec::witness::<_, 0, 16>")
add("c10__w__dec_resp_unimpl", 19, "own", "dec::witness::<_, 1, 16>")
add("c10__w__dec_cc_range", 19, "own", "dec::witness::<_, 2, 16>")

# ---------------------------------------------------------------- process_packet, one call
PROC_Q = [12, 13, 14]
PROC_T = [15, 16, 17, 18, 19, 20, 24, 32, 64]
# 12/13/14: every answerable request has one of these lengths; 16: the Set Endpoint ID *response*
# (Rq=0, Success, 3 data bytes) — the shortest fixed-length response, for "responses change nothing"
# 18 / 29: the other two fixed-length responses (Get MCTP Version Support, Get Endpoint UUID)
PROC_Q_EXTRA = {"C11": [16, 18, 29], "C13": [16, 18, 29], "C02": [], "C10": [16], "C12": []}
for pid, own in [("C02", "ign"), ("C10", "own"), ("C11", "ign"), ("C12", "ign"), ("C13", "ign")]:
    for n in PROC_Q + PROC_Q_EXTRA[pid]:
        add("%s__q__proc_len%d" % (pid.lower(), n), 70, own, "proc::one::<_, %s, %d, 3, 2, false>" % (pid, n))
    for n in PROC_T:
        if n in PROC_Q_EXTRA[pid]:
            continue
        add("%s__t__proc_len%d" % (pid.lower(), n), max(70, n + 6), own, "proc::one::<_, %s, %d, 3, 2, false>" % (pid, n))
for pid in ["C03", "C04"]:
    for n in PROC_Q:
        add("%s__q__proc_len%d" % (pid.lower(), n), 70, "ign", "proc::one::<_, %s, %d, 3, 2, false>" % (pid, n))
for pid, own in [("C10", "own"), ("C11", "ign")]:
    for n in range(21, 41):
        if n in PROC_T or n in PROC_Q_EXTRA[pid]:
            continue
        add("%s__s__proc_len%d" % (pid.lower(), n), 70, own, "proc::one::<_, %s, %d, 3, 2, false>" % (pid, n))
# a 259-byte process_packet harness did not finish within 50 minutes / 17 GB (measured): outside the claim;
# 64 bytes is the largest registered process input
PROC_BIG = []  # filled below once measured
for n in PROC_BIG:
    add("c10__t__proc_len%d" % n, n + 12, "own", "proc::one::<_, C10, %d, 3, 2, false>" % n)
    add("c11__t__proc_len%d" % n, n + 12, "ign", "proc::one::<_, C11, %d, 3, 2, false>" % n)
# inputs too short to be a control request go straight to process_packet as well:
# symbolic length 0..=11 (C10 377 s; C11 572 s / 10 GB -> thorough), concrete 10 / 11 in quick for C11
add("c10__q__proc_short11", 70, "own", "proc::short::<_, C10, 11, 99>")
for k in (10, 11):
    add("c11__q__proc_short_len%d" % k, 70, "ign", "proc::short::<_, C11, 11, %d>" % k)
for pid in ["C11", "C02", "C13"]:
    add("%s__t__proc_short11" % pid.lower(), 70, "ign", "proc::short::<_, %s, 11, 99>" % pid)
# C10: "validly configured context" includes the documented maximum of 30 message types
add("c10__q__proc_len12_nt30", 70, "own", "proc::one::<_, C10, 12, 30, 1, true>")
# C10: maximum-size input through the processor (bare harness, see proc::long)
# (259 bytes: did not finish within the 30-minute per-harness limit either — 128 is what is registered)
add("c10__t__proc_long128", 132, "own", "proc::long::<_, C10, 128>")
# C05: ... and carry the single-packet transport header whatever the request's flags were
for n in (12, 13):
    add("c05__q__proc_len%d" % n, 70, "ign", "proc::one::<_, C05, %d, 3, 2, false>" % n)
# C07: the responses process_packet writes are encoded control responses as well
for n in PROC_Q:
    add("c07__q__proc_len%d" % n, 70, "ign", "proc::one::<_, C07, %d, 3, 2, false>" % n)
add("c12__q__proc_len12_nt30", 70, "ign", "proc::one::<_, C12, 12, 30, 1, true>")
add("c04__q__proc_len12_nt30", 70, "ign", "proc::one::<_, C04, 12, 30, 1, true>")
# C14: 1..=16 vendor sets; only 13-byte packets carry the command
add("c14__q__proc_len13_nv16", 70, "ign", "proc::one::<_, C14, 13, 1, 16, false>")
# C15: message type list 0..=3 symbolic, 29/30/31.. exact
for n in [12, 13]:
    add("c15__q__proc_len%d_nt3" % n, 70, "ign", "proc::one::<_, C15, %d, 3, 1, false>" % n)
# smallest configuration (0 or 1 types): still decides when a change makes the response length depend on
# the list *contents* — the larger instances then run into the time limit (C15-E: INCONCLUSIVE, not a verdict)
add("c15__q__proc_len12_nt1", 70, "ign", "proc::one::<_, C15, 12, 1, 1, false>")
for nt in [29, 30]:
    add("c15__q__proc_len12_nt%d" % nt, 70, "ign", "proc::one::<_, C15, 12, %d, 1, true>" % nt)
for nt in list(range(4, 29)):
    add("c15__t__proc_len12_nt%d" % nt, 70, "ign", "proc::one::<_, C15, 12, %d, 1, true>" % nt)
add("c15__t__proc_len14_nt3", 70, "ign", "proc::one::<_, C15, 14, 3, 1, false>")
add("c10__w__proc_cmd_reserved", 70, "own", "proc::witness::<_, 0, 12>")
add("c10__w__proc_seteid_op", 70, "own", "proc::witness::<_, 1, 14>")
add("c10__w__proc_vendor_selector", 70, "own", "proc::witness::<_, 2, 13>")
add("c10__w__proc_cmd_unimpl_resolve", 70, "own", "proc::witness::<_, 3, 13>")
add("c10__w__proc_cmd_unimpl_allocate", 70, "own", "proc::witness::<_, 3, 15>")
add("c12__w__proc_instance_id", 70, "ign", "proc::witness_instance::<_, 12>")

# ---------------------------------------------------------------- small steps and short histories
add("c13__q__init", 40, "ign", "hist::init::<_, C13>")
add("c13__q__accessor", 40, "ign", "hist::accessor::<_, C13>")
add("c02__q__burst16", 20, "ign", "hist::burst::<_, C02, 16>")
add("c02__t__burst24", 28, "ign", "hist::burst::<_, C02, 24>")
add("c02__t__burst32", 36, "ign", "hist::burst::<_, C02, 32>")
add("c13__t__set_then_get", 70, "ign", "hist::set_then_get::<_, C13>")
add("c14__t__vendor_twice_nv4", 70, "ign", "hist::vendor_twice::<_, C14, 4>")
add("c15__t__uuid_twice", 70, "ign", "hist::uuid_twice::<_, C15>")

# ---------------------------------------------------------------- encoders
# (short name, type, kind, tier, flags)  kind: req / resp / msg / raw ; flags: ok / refuse / oversize ; kfdec = round trip hits the decoder's unimplemented!() table
ENC = []


def enc(short, ty, kind, tier="q", flags="ok", kfdec=False, big=False):
    ENC.append(dict(short=short, ty=ty, kind=kind, tier=tier, flags=flags, kfdec=kfdec, big=big, buf=328 if big else 88))


enc("req_set_eid", "enc::ReqSetEndpointId", "req", flags="ok+refuse")
enc("req_get_eid", "enc::ReqGetEndpointId", "req")
enc("req_get_uuid", "enc::ReqGetEndpointUuid", "req")
enc("req_get_version", "enc::ReqGetVersion", "req")
enc("req_get_msgtypes", "enc::ReqGetMessageTypeSupport", "req")
enc("req_get_vendor", "enc::ReqGetVendorSupport", "req")
enc("req_resolve_eid", "enc::ReqResolveEndpointId", "req")
enc("req_allocate", "enc::ReqAllocate", "req")
for n in list(range(0, 10)) + [63, 64, 65, 71]:
    tier = "q" if n in (0, 1, 7, 8, 64) else "t"
    enc("req_routing%d" % n, "enc::ReqRouting<%d>" % n, "req", tier=tier, flags="ok" if n < 8 else "refuse", kfdec=True)
enc("req_get_routing_table", "enc::ReqGetRoutingTable", "req", kfdec=True)
enc("req_prepare_discovery", "enc::ReqPrepareDiscovery", "req", kfdec=True)
enc("req_endpoint_discovery", "enc::ReqEndpointDiscovery", "req", kfdec=True)
enc("req_discovery_notify", "enc::ReqDiscoveryNotify", "req", kfdec=True)
enc("req_get_network_id", "enc::ReqGetNetworkId", "req", kfdec=True)
enc("req_query_hop", "enc::ReqQueryHop", "req", kfdec=True)
enc("req_resolve_uuid", "enc::ReqResolveUuid", "req", kfdec=True)
enc("req_query_rate_limit", "enc::ReqQueryRateLimit", "req", kfdec=True)

enc("resp_set_eid", "enc::RespSetEndpointId", "resp")
enc("resp_get_eid", "enc::RespGetEndpointId", "resp")
enc("resp_get_uuid", "enc::RespGetUuid", "resp")
enc("resp_get_version", "enc::RespGetVersion", "resp")
for n in range(0, 33):
    tier = "q" if n in (0, 1, 3, 30, 31) else "t"
    enc("resp_msgtypes%d" % n, "enc::RespMsgTypes<%d>" % n, "resp", tier=tier, flags="ok" if n <= 30 else "refuse")
for n in range(0, 8):
    tier = "q" if n in (0, 3, 5, 7) else "t"
    enc("resp_vendor%d" % n, "enc::RespVendor<%d>" % n, "resp", tier=tier)

# vendor_defined: PCI header 2 bytes → body <= 247 fits; IANA header 4 → <= 245
for n in [0, 1, 4, 16, 64, 128, 200, 246, 247, 248, 249, 252, 300]:
    tier = "q" if n in (0, 1, 4, 247, 248, 252, 300) else "t"
    enc("vendor_pci%d" % n, "enc::VendorDefined<0, %d>" % n, "msg", tier=tier, flags="ok" if n <= 247 else "oversize", big=n > 64)
for n in [0, 1, 4, 16, 64, 128, 200, 244, 245, 246, 250, 300]:
    tier = "q" if n in (0, 1, 4, 245, 246) else "t"
    enc("vendor_iana%d" % n, "enc::VendorDefined<1, %d>" % n, "msg", tier=tier, flags="ok" if n <= 245 else "oversize", big=n > 64)
enc("vendor_pci_sym16", "enc::VendorSym<0, 16>", "msg", tier="t")
enc("vendor_iana_sym16", "enc::VendorSym<1, 16>", "msg", tier="t")
enc("vendor_badfmt4", "enc::VendorDefined<2, 4>", "msg", flags="refuse")
# the four public packet writers called directly: Raw<W, H, L, R>  (R = through the response half)
for w, wn in [(0, "ctrl"), (1, "pci"), (2, "iana"), (3, "spdm")]:
    kind = "raw" if w == 0 else "msg"
    hs = [2] if w == 0 else [0, 3]
    for h in hs:
        lim = 249 - h
        for n in [0, 4, lim, lim + 1]:
            if h == 3 and n >= lim:
                tier = "t"
            elif n == lim and not (w in (0, 3) and h in (0, 2)):
                tier = "t"  # maximum-size packets cost minutes each
            else:
                tier = "q" if (n <= 4 or w in (0, 3)) else "t"
            enc("raw_%s_h%d_%d" % (wn, h, n), "enc::Raw<%d, %d, %d, false>" % (w, h, n), kind, tier=tier,
                flags="ok" if n <= lim else "oversize", big=n > 64)
    enc("raw_%s_resphalf_4" % wn, "enc::Raw<%d, 2, 4, true>" % w, kind, tier="q")

ENC_UNWIND = 330


def enc_harness(pid, e, tier=None, wit=False, mode=None, own="ign"):
    t = "w" if wit else (tier or e["tier"])
    name = "%s__%s__%s" % (pid.lower(), t, e["short"])
    if mode is None:
        expr = "enc::run::<_, %s, %s, %d>" % (pid, e["ty"], e["buf"])
    else:
        expr = "enc::run_mode::<_, %s, %s, %d, %d>" % (pid, e["ty"], mode, e["buf"])
    add(name, e["buf"] + 4, own, expr)


for e in ENC:
    ok = "ok" in e["flags"]
    refuse_only = e["flags"] in ("refuse", "oversize")
    k = e["kind"]
    # C16: everything, owns encoder panics
    enc_harness("C16", e, own="own")
    # C04: framing for ok instances, refusal for oversize instances
    if ok or e["flags"] == "oversize":
        # own: a panic of the encoder or of the length probe on the encoded packet is not "returns that
        # same length" / "is refused" (C04-F: u8 overflow inside get_length for byte counts 252..=255)
        enc_harness("C04", e, tier="t" if (e["big"] and ok and e["short"] != "vendor_pci247") else None, own="own")
    if refuse_only:
        if k == "msg" and e["flags"] == "refuse":
            enc_harness("C08", e)
        continue
    # maximum-size instances (minutes each): every writer in quick for C16/C08 (each writer has its own
    # size check), only vendor_pci247 in quick for C01/C03/C04
    bigtier = None
    if e["big"] and e["short"] != "vendor_pci247":
        bigtier = "t"
    enc_harness("C03", e, tier=bigtier)
    if not e["big"]:
        enc_harness("C05", e)
        enc_harness("C13", e)
    elif e["short"] in ("vendor_pci247", "vendor_iana245", "raw_spdm_h0_249", "raw_ctrl_h2_247"):
        # every writer once at its maximum size in quick: flags that depend on the body length (C05-E)
        enc_harness("C05", e, tier="q")
    if k == "req":
        enc_harness("C06", e)
    if k == "resp":
        enc_harness("C07", e)
    if k == "msg":
        enc_harness("C08", e)
    # C01: decoder panics on the library's own packet are violations of C01 too
    if k in ("req", "resp", "msg"):
        if e["kfdec"]:
            enc_harness("C01", e, wit=True, own="own")
        elif e["short"] == "resp_get_eid":
            enc_harness("C01", e, mode=1, own="own")
            add("c01__w__resp_get_eid_success", e["buf"] + 4, "own", "enc::run_mode::<_, C01, %s, 2, %d>" % (e["ty"], e["buf"]))
        else:
            # maximum-size round trips cost ~8 min each: thorough only
            enc_harness("C01", e, own="own", tier="t" if (e["big"] and e["short"] != "vendor_pci247") else None)
# exact-fit buffers with a concrete capacity (see enc::run_fit)
FIT = {"req_routing1": "C06", "req_routing7": "C06", "req_set_eid": "C06", "resp_msgtypes3": "C07", "resp_msgtypes30": "C07",
       "resp_vendor7": "C07", "resp_get_uuid": "C07", "vendor_pci4": "C08", "vendor_iana4": "C08", "raw_spdm_h3_4": "C08"}
for e in ENC:
    if e["short"] in FIT:
        for pid, own in [(FIT[e["short"]], "ign"), ("C16", "own"), ("C03", "ign")]:
            add("%s__q__%s_fit" % (pid.lower(), e["short"]), e["buf"] + 4, own, "enc::run_fit::<_, %s, %s, %d>" % (pid, e["ty"], e["buf"]))
for a in (0, 1):
    for b in (0, 1):
        add("c07__q__resp_eid_twice_%d%d" % (a, b), 40, "ign", "enc::resp_eid_twice::<_, C07, %d, %d>" % (a, b))
add("c13__q__resp_eid_twice_10", 40, "ign", "enc::resp_eid_twice::<_, C13, 1, 0>")
# C06 finding: Query Hop command code — the C06 harness for it is the witness
L[:] = [x for x in L if x[0] != "c06__q__req_query_hop"]
add("c06__w__req_query_hop", 92, "ign", "enc::run::<_, C06, enc::ReqQueryHop, 88>")

out = ['//! GENERATED by gen_registry.py — do not edit. Name = <property>__<tier>__<what>;',
       '//! tier q = quick (also run by thorough), t = thorough only, w = asserts the property on the',
       '//! input class of a known finding (expected to fail while the finding is open, otherwise a normal harness).',
       'use crate::bodies::*;', 'use crate::src::*;', '', 'crate::harnesses! { proofs, REGISTRY;']
for name, unwind, own, expr in L:
    out.append("    %s, %d, %s, %s;" % (name, unwind, own, expr))
out.append("}")
open(os.path.join(HERE, "src", "registry.rs"), "w").write("\n".join(out) + "\n")
print(len(L), "harnesses")
