pub mod conv;
pub mod getlen;
pub mod views;
pub mod ctx;
pub mod dec;
pub mod enc;
pub mod proc;
pub mod hist;
