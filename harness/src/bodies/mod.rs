pub mod conv;
pub mod getlen;
pub mod views;
pub mod ctx;
