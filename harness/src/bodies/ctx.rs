//! An arbitrary endpoint context: arbitrary configuration and arbitrary
//! values in every mutable cell (DESIGN §3.6).
use crate::src::Src;
use libmctp::mctp_traits::SMBusMCTPRequestResponse;
use libmctp::vendor_packets::VendorIDFormat;
use libmctp::MCTPSMBusContext;

pub struct Cfg<const NT: usize, const NV: usize> {
    pub addr: u8,
    pub types: [u8; NT],
    pub nt: usize,
    pub vend: [VendorIDFormat; NV],
    pub nv: usize,
    pub uuid: [u8; 16],
    pub set_uuid: bool,
    pub req_eid: u8,
    pub resp_eid: u8,
    pub sel: u8,
    /// install the UUID before (true) or after (false) the EIDs / selector are stored
    pub uuid_first: bool,
}

impl<const NT: usize, const NV: usize> Cfg<NT, NV> {
    /// Draw everything. `nt <= NT`, `nv <= NV`; vendor formats unconstrained.
    pub fn draw<S: Src>(s: &mut S) -> Self {
        let addr = s.u8();
        let types: [u8; NT] = s.arr();
        let nt = if NT == 0 { 0 } else { s.usize() };
        s.assume(nt <= NT);
        let vend: [VendorIDFormat; NV] = core::array::from_fn(|_| VendorIDFormat {
            format: s.u8(),
            data: s.u32(),
            numeric_value: s.u16(),
        });
        let nv = if NV == 0 { 0 } else { s.usize() };
        s.assume(nv <= NV);
        let uuid: [u8; 16] = s.arr();
        let set_uuid = s.bool();
        let req_eid = s.u8();
        let resp_eid = s.u8();
        let sel = s.u8();
        let uuid_first = s.bool();
        Cfg { addr, types, nt, vend, nv, uuid, set_uuid, req_eid, resp_eid, sel, uuid_first }
    }

    /// Build the context and put it into the drawn state. The UUID is installed
    /// either before or after the cells are written (symbolic choice): the
    /// reachable state must not depend on that order.
    pub fn build(&self) -> MCTPSMBusContext<'_> {
        let mut ctx = MCTPSMBusContext::new(self.addr, &self.types[..self.nt], &self.vend[..self.nv]);
        if self.set_uuid && self.uuid_first {
            ctx.set_uuid(&self.uuid);
        }
        ctx.get_request().set_eid(self.req_eid);
        ctx.get_response().set_eid(self.resp_eid);
        ctx.verif_set_vendor_id_selector(self.sel);
        if self.set_uuid && !self.uuid_first {
            ctx.set_uuid(&self.uuid);
        }
        ctx
    }

    /// The UUID the endpoint must report.
    pub fn expect_uuid(&self) -> [u8; 16] {
        if self.set_uuid {
            self.uuid
        } else {
            [0; 16]
        }
    }
}
