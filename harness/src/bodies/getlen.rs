//! C17 (and the get_length part of C10/C04) — the length probe.
use super::ctx::Cfg;
use crate::src::Src;
use crate::{chk, cov};
use libmctp::base_packet::MessageType;
use libmctp::errors::DecodeError;

/// `N`-byte arbitrary array, arbitrary prefix length 0..=N, arbitrary context.
pub fn probe<S: Src, const P: u8, const N: usize>(s: &mut S) {
    let cfg: Cfg<2, 2> = Cfg::draw(s);
    let a: [u8; N] = s.arr();
    let n = s.usize();
    s.assume(n <= N);
    let ctx = cfg.build();
    let r = ctx.get_length(&a[..n]);
    if n >= 3 {
        let expect = if a[1] == 0x0F {
            Ok(a[2] as usize + 4)
        } else {
            Err((MessageType::Invalid, DecodeError::Unknown))
        };
        chk!(s, P, C17, r == expect, "len>=3: Ok(byte[2]+4) iff byte[1]==0x0F else Err((Invalid, Unknown)); nothing else matters");
        cov!(s, P, C17, n == N && r.is_ok(), "probe: full-length input accepted");
        cov!(s, P, C17, n == 3 && r == Ok(259), "probe: 3-byte prefix announcing 259");
        cov!(s, P, C17, r.is_err(), "probe: wrong command code rejected");
    } else {
        chk!(s, P, C17, r.is_err(), "len<3 is rejected");
        cov!(s, P, C17, n == 0, "probe: empty input");
        cov!(s, P, C17, n == 2, "probe: 2-byte input");
    }
    cov!(s, P, C10, n == 0, "probe: empty input");
    cov!(s, P, C10, n == 2, "probe: two bytes");
    cov!(s, P, C10, n == N && r.is_ok(), "probe: full-length input");
}
