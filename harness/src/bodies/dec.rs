//! decode_packet on arbitrary bytes: C02(a), C09, C10, C13 (decode-only step).
use super::ctx::Cfg;
use crate::kf;
use crate::oracle::*;
use crate::src::*;
use crate::{chk, cov, covopt, reached};
use libmctp::base_packet::MessageType;
use libmctp::control_packet::CompletionCode;
use libmctp::errors::{ControlMessageError, DecodeError};
use libmctp::mctp_traits::SMBusMCTPRequestResponse;

pub type DecResult<'a> = Result<(MessageType, &'a [u8]), (MessageType, DecodeError)>;

/// What the reference decoder says about `b` (C09 text). `None` fields are
/// "not applicable".
pub struct RefDecode {
    pub hdr_ok: bool,
    pub typ: u8,
    pub pec_ok: bool,
    pub is_control: bool,
    pub is_request: bool,
    /// response completion code byte (control responses long enough to hold one)
    pub cc: u8,
    /// control data length matches the command's fixed length (or it has none)
    pub len_ok: bool,
    pub has_fixed_len: bool,
    /// input long enough to hold headers + PEC for its kind
    pub long_enough: bool,
    /// offset of the payload in `b`
    pub off: usize,
    pub accept: bool,
}

pub fn ref_decode(b: &[u8]) -> RefDecode {
    let n = b.len();
    let mut r = RefDecode {
        hdr_ok: false, typ: 0xFF, pec_ok: false, is_control: false, is_request: false, cc: 0, len_ok: true,
        has_fixed_len: false, long_enough: false, off: 9, accept: false,
    };
    if n < 10 {
        return r;
    }
    r.hdr_ok = (b[4] >> 4) == 0 && (b[4] & 0x0F) == 1 && (b[8] >> 7) == 0 && supported_type(b[8] & 0x7F);
    r.typ = b[8] & 0x7F;
    r.pec_ok = b[n - 1] == ref_crc8(&b[..n - 1]);
    r.long_enough = true;
    if r.hdr_ok && r.typ == 0 {
        r.is_control = true;
        if n < 12 {
            r.long_enough = false;
            return r;
        }
        r.is_request = (b[9] >> 7) == 1;
        let cmd = b[10];
        if r.is_request {
            r.off = 11;
            if let Some(k) = req_fixed_len(cmd) {
                r.has_fixed_len = true;
                r.len_ok = n - 1 - 11 == k;
            }
        } else {
            if n < 13 {
                r.long_enough = false;
                return r;
            }
            r.cc = b[11];
            r.off = 12;
            if let Some(k) = resp_fixed_len(cmd) {
                r.has_fixed_len = true;
                r.len_ok = n - 1 - 12 == k;
            }
        }
    }
    r.accept = r.hdr_ok && r.pec_ok && (!r.is_control || (r.len_ok && (r.is_request || r.cc == 0)));
    r
}

fn mt(t: u8) -> MessageType {
    match t {
        0x00 => MessageType::MCtpControl,
        0x05 => MessageType::SpdmOverMctp,
        0x06 => MessageType::SecuredMessages,
        0x7E => MessageType::VendorDefinedPCI,
        0x7F => MessageType::VendorDefinedIANA,
        _ => MessageType::Invalid,
    }
}

/// Responses to Get Endpoint ID / Allocate Endpoint IDs / Routing Information
/// Update: the library's expected lengths disagree with DSP0236; C09 excludes them.
pub fn c09_excluded_response(b: &[u8]) -> bool {
    kf::hdr_supported(b) && (b[8] & 0x7F) == 0 && b.len() >= 12 && (b[9] >> 7) == 0 && (b[10] == 0x02 || b[10] == 0x08 || b[10] == 0x09)
}

/// The C02(a) / C09 judgement of a decode result.
pub fn judge<S: Src, const P: u8>(s: &mut S, b: &[u8], res: &DecResult) {
    if !(P == C02 || P == C09) {
        return;
    }
    let n = b.len();
    let r = ref_decode(b);
    if P == C02 {
        chk!(s, P, C02, !res.is_ok() || (n >= 2 && r.pec_ok), "decode_packet Ok => last byte is the CRC-8 PEC of all bytes before it");
        cov!(s, P, C02, res.is_ok(), "dec: some input accepted");
        cov!(s, P, C02, n >= 12 && !r.pec_ok && res.is_err(), "dec: wrong PEC rejected");
        return;
    }
    // ---- C09
    if !r.long_enough {
        chk!(s, P, C09, res.is_err(), "input too short to hold headers and PEC is rejected");
        covopt!(s, P, C09, n == 0, "dec: empty input");
        covopt!(s, P, C09, n == 9, "dec: nine bytes");
        covopt!(s, P, C09, n == 12 && r.is_control && !r.is_request, "dec: 12-byte control response (no room for a completion code)");
        return;
    }
    s.assume(!c09_excluded_response(b));
    match res {
        Ok((t, p)) => {
            chk!(s, P, C09, r.accept, "accepted => header v1/rsvd 0/IC clear/type supported, PEC correct, control: cc Success and fixed length matches");
            chk!(s, P, C09, *t == mt(r.typ), "accepted => reported type is the type in the message header");
            chk!(s, P, C09, p.len() == n - 1 - r.off && core::ptr::eq(p.as_ptr(), b[r.off..].as_ptr()), "accepted payload is exactly the bytes between the message header and the PEC");
            covopt!(s, P, C09, r.is_control && r.is_request && r.has_fixed_len, "dec: fixed-length control request accepted");
            covopt!(s, P, C09, r.is_control && r.is_request && !r.has_fixed_len && p.len() > 0, "dec: variable-length control request accepted");
            covopt!(s, P, C09, r.is_control && !r.is_request && r.has_fixed_len, "dec: fixed-length control response accepted");
            covopt!(s, P, C09, r.typ == 0x7F && p.len() > 1, "dec: IANA message accepted");
            covopt!(s, P, C09, r.typ == 0x06 && p.is_empty(), "dec: empty secured message accepted");
        }
        Err((t, e)) => {
            chk!(s, P, C09, !r.accept, "well-formed input (all acceptance conditions hold) is accepted");
            let bad_pec = *e == DecodeError::ControlMessage(ControlMessageError::InvalidPEC);
            let bad_len = *e == DecodeError::ControlMessage(ControlMessageError::InvalidRequestDataLength);
            chk!(s, P, C09, !bad_pec || !r.pec_ok, "InvalidPEC only if the PEC is wrong");
            chk!(s, P, C09, !bad_len || (r.is_control && r.has_fixed_len && !r.len_ok), "InvalidRequestDataLength only if a fixed length is violated");
            if let DecodeError::ControlMessage(ControlMessageError::UnsuccessfulCompletionCode(c)) = e {
                let code = match c {
                    CompletionCode::Success => 0u8,
                    CompletionCode::Error => 1,
                    CompletionCode::ErrorInvalidData => 2,
                    CompletionCode::ErrorInvalidLength => 3,
                    CompletionCode::ErrorNotReady => 4,
                    CompletionCode::ErrorUnsupportedCmd => 5,
                };
                chk!(s, P, C09, r.is_control && !r.is_request && r.cc == code && code != 0, "UnsuccessfulCompletionCode(c) only for a response carrying c != Success");
                covopt!(s, P, C09, code == 5, "dec: completion code 5 reported");
            }
            chk!(s, P, C09, *t != MessageType::Invalid || !r.hdr_ok, "message type Invalid only for an unsupported header");
            chk!(s, P, C09, *t == MessageType::Invalid || (r.hdr_ok && *t == mt(r.typ)), "a non-Invalid message type in an error is the input's own type");
            covopt!(s, P, C09, bad_pec && r.typ == 0x05, "dec: SPDM with bad PEC");
            covopt!(s, P, C09, bad_len, "dec: bad control length reported");
            covopt!(s, P, C09, !r.hdr_ok && (b[4] & 0x0F) == 1 && (b[4] >> 4) != 0, "dec: reserved bits set rejected");
            covopt!(s, P, C09, !r.hdr_ok && b[4] == 1 && (b[8] >> 7) == 1, "dec: IC bit rejected");
        }
    }
}

fn run<S: Src, const P: u8>(s: &mut S, b: &[u8]) {
    let cfg: Cfg<2, 2> = Cfg::draw(s);
    // open C10 findings: inputs on which the decoder is known to panic are
    // excluded everywhere (C10 looks at them through the witness harnesses)
    s.assume(!kf::dec_any(b));
    let ctx = cfg.build();
    let req0 = ctx.get_request().get_eid();
    let resp0 = ctx.get_response().get_eid();
    let res = ctx.decode_packet(b);
    reached!(s, "dec: decode_packet returned");
    judge::<S, P>(s, b, &res);
    if P == C10 {
        cov!(s, P, C10, res.is_ok(), "dec: returns Ok");
        cov!(s, P, C10, res.is_err(), "dec: returns Err");
        covopt!(s, P, C10, b.len() == 0, "dec: empty input reached the decoder");
        covopt!(s, P, C10, b.len() == 11, "dec: truncated control packet reached the decoder");
    }
    if P == C13 {
        chk!(s, P, C13, ctx.get_request().get_eid() == req0 && ctx.get_response().get_eid() == resp0, "a decode-only call leaves the EID of both halves unchanged");
        cov!(s, P, C13, res.is_ok() && b.len() >= 14 && (b[8] & 0x7F) == 0 && b[10] == 0x01, "dec: accepted Set Endpoint ID request decoded only");
    }
}

/// `N`-byte arbitrary array, symbolic length 0..=N.
pub fn sym<S: Src, const P: u8, const N: usize>(s: &mut S) {
    let a: [u8; N] = s.arr();
    let n = s.usize();
    s.assume(n <= N);
    run::<S, P>(s, &a[..n]);
}

/// Exactly `N` arbitrary bytes.
pub fn conc<S: Src, const P: u8, const N: usize>(s: &mut S) {
    let a: [u8; N] = s.arr();
    run::<S, P>(s, &a);
}

/// Witness of an open C10 decoder finding: same call, input restricted to the class `K`.
pub fn witness<S: Src, const K: u8, const N: usize>(s: &mut S) {
    let cfg: Cfg<2, 2> = Cfg::draw(s);
    let a: [u8; N] = s.arr();
    let n = s.usize();
    s.assume(n <= N);
    let b = &a[..n];
    s.assume(match K {
        0 => kf::dec_req_unimpl_class(b),
        1 => kf::dec_resp_unimpl_class(b),
        _ => kf::dec_cc_range_class(b),
    });
    let ctx = cfg.build();
    let _ = ctx.decode_packet(b);
}
