//! Every encoder of the library as an `EncCase`: arbitrary arguments, the real
//! call, and an oracle (`Expect`) written from DSP0236 / the property text.
//! One generic runner checks C01, C03–C08, C13 (encoder step) and C16 on it.
use super::ctx::Cfg;
use crate::oracle::ref_crc8;
use crate::src::*;
use crate::{chk, covopt, reached};
use libmctp::base_packet::MessageType;
use libmctp::control_packet::*;
use libmctp::errors::{ControlMessageError, DecodeError};
use libmctp::mctp_traits::SMBusMCTPRequestResponse;
use libmctp::smbus_proto::SMBusRoutingInformationUpdateEntry;
use libmctp::vendor_packets::VendorIDFormat;
use libmctp::MCTPSMBusContext;

/// Largest buffer any harness hands to an encoder.
pub const BUF: usize = 320;
pub const MAXBODY: usize = 304;

#[derive(Clone, Copy, PartialEq)]
pub enum Kind {
    /// control request: body = [0x80, code, params..]
    Request,
    /// control response: body = [0x00, code, cc, fields..]
    Response,
    /// vendor defined / SPDM / secured: body = [header.., data..]
    Message,
    /// generate_control_packet_bytes called directly with caller-chosen header bytes
    RawControl,
}

pub struct Expect {
    /// the call must succeed (C16); `false` = documented-invalid argument or oversize
    pub ok: bool,
    /// refused because the message does not fit the one-byte SMBus byte count (C04)
    pub oversize: bool,
    pub kind: Kind,
    /// message type byte (byte 8)
    pub typ: u8,
    /// expected bytes 9..len-1
    pub body: [u8; MAXBODY],
    pub blen: usize,
}

impl Expect {
    pub fn new(kind: Kind, typ: u8) -> Self {
        Expect { ok: true, oversize: false, kind, typ, body: [0; MAXBODY], blen: 0 }
    }
    pub fn push(&mut self, b: u8) {
        self.body[self.blen] = b;
        self.blen += 1;
    }
    pub fn extend(&mut self, bs: &[u8]) {
        let mut i = 0;
        while i < bs.len() {
            self.push(bs[i]);
            i += 1;
        }
    }
    /// Total packet length: 8 header bytes + type + body + PEC.
    pub fn len(&self) -> usize {
        8 + 1 + self.blen + 1
    }
    /// Apply the SMBus block limit: byte count = len - 4 must fit one byte.
    pub fn finish(mut self) -> Self {
        if self.len() - 4 > 255 {
            self.ok = false;
            self.oversize = true;
        }
        self
    }
}

pub trait EncCase {
    type Args;
    const NAME: &'static str;
    fn draw<S: Src>(s: &mut S) -> Self::Args;
    /// destination argument of the call
    fn dest(a: &Self::Args) -> u8;
    fn call(ctx: &MCTPSMBusContext, a: &Self::Args, buf: &mut [u8]) -> Result<usize, ()>;
    /// `resp_eid`: the EID stored in the response half (reported by two responses)
    fn expect(a: &Self::Args, resp_eid: u8) -> Expect;
    /// which half's EID cell the encoder reads (true = response half)
    const RESPONSE_HALF: bool = false;
}

// ---------------------------------------------------------------- enum pickers
fn set_eid_op(i: u8) -> MCTPSetEndpointIDOperations {
    match i {
        0 => MCTPSetEndpointIDOperations::SetEID,
        1 => MCTPSetEndpointIDOperations::ForceEID,
        2 => MCTPSetEndpointIDOperations::ResetEID,
        _ => MCTPSetEndpointIDOperations::SetDiscoveredFlag,
    }
}
fn version_query(i: u8) -> (MCTPVersionQuery, u8) {
    match i {
        0 => (MCTPVersionQuery::MCTPBaseSpec, 0xFF),
        1 => (MCTPVersionQuery::MCTPControlProcMessage, 0x00),
        2 => (MCTPVersionQuery::DSP0241, 0x01),
        3 => (MCTPVersionQuery::DSP0261, 0x02),
        _ => (MCTPVersionQuery::DSP0261_2, 0x03),
    }
}
fn alloc_op(i: u8) -> AllocateEndpointIDOperation {
    match i {
        0 => AllocateEndpointIDOperation::AllocateEIDs,
        1 => AllocateEndpointIDOperation::ForceAllocation,
        _ => AllocateEndpointIDOperation::GetAllocationInformation,
    }
}
fn msg_type(i: u8) -> (MessageType, u8) {
    match i {
        0 => (MessageType::MCtpControl, 0x00),
        1 => (MessageType::SpdmOverMctp, 0x05),
        2 => (MessageType::SecuredMessages, 0x06),
        3 => (MessageType::VendorDefinedPCI, 0x7E),
        4 => (MessageType::VendorDefinedIANA, 0x7F),
        _ => (MessageType::Invalid, 0xFF),
    }
}
pub fn completion(i: u8) -> CompletionCode {
    match i {
        0 => CompletionCode::Success,
        1 => CompletionCode::Error,
        2 => CompletionCode::ErrorInvalidData,
        3 => CompletionCode::ErrorInvalidLength,
        4 => CompletionCode::ErrorNotReady,
        _ => CompletionCode::ErrorUnsupportedCmd,
    }
}
fn draw_below<S: Src>(s: &mut S, n: u8) -> u8 {
    let v = s.u8();
    s.assume(v < n);
    v
}

fn request(code: u8) -> Expect {
    let mut e = Expect::new(Kind::Request, 0x00);
    e.push(0x80);
    e.push(code);
    e
}
fn response(code: u8, cc: u8) -> Expect {
    let mut e = Expect::new(Kind::Response, 0x00);
    e.push(0x00);
    e.push(code);
    e.push(cc);
    e
}

// ---------------------------------------------------------------- requests
pub struct A1 {
    pub dest: u8,
    pub x: u8,
}
pub struct A2 {
    pub dest: u8,
    pub x: u8,
    pub y: u8,
}
pub struct A3 {
    pub dest: u8,
    pub x: u8,
    pub y: u8,
    pub z: u8,
}

macro_rules! req_noarg {
    ($ty:ident, $name:literal, $method:ident, $code:literal) => {
        pub struct $ty;
        impl EncCase for $ty {
            type Args = u8;
            const NAME: &'static str = $name;
            fn draw<S: Src>(s: &mut S) -> u8 {
                s.u8()
            }
            fn dest(a: &u8) -> u8 {
                *a
            }
            fn call(ctx: &MCTPSMBusContext, a: &u8, buf: &mut [u8]) -> Result<usize, ()> {
                ctx.get_request().$method(*a, buf)
            }
            fn expect(_a: &u8, _e: u8) -> Expect {
                request($code).finish()
            }
        }
    };
}
req_noarg!(ReqGetEndpointId, "get_endpoint_id", get_endpoint_id, 0x02);
req_noarg!(ReqGetEndpointUuid, "get_endpoint_uuid", get_endpoint_uuid, 0x03);
req_noarg!(ReqGetMessageTypeSupport, "get_message_type_suport", get_message_type_suport, 0x05);
req_noarg!(ReqPrepareDiscovery, "prepare_for_endpoint_discovery", prepare_for_endpoint_discovery, 0x0B);
req_noarg!(ReqEndpointDiscovery, "endpoint_discovery", endpoint_discovery, 0x0C);
req_noarg!(ReqDiscoveryNotify, "discovery_notify", discovery_notify, 0x0D);
req_noarg!(ReqGetNetworkId, "get_network_id", get_network_id, 0x0E);
req_noarg!(ReqQueryRateLimit, "query_rate_limit", query_rate_limit, 0x11);

macro_rules! req_onebyte {
    ($ty:ident, $name:literal, $method:ident, $code:literal) => {
        pub struct $ty;
        impl EncCase for $ty {
            type Args = A1;
            const NAME: &'static str = $name;
            fn draw<S: Src>(s: &mut S) -> A1 {
                A1 { dest: s.u8(), x: s.u8() }
            }
            fn dest(a: &A1) -> u8 {
                a.dest
            }
            fn call(ctx: &MCTPSMBusContext, a: &A1, buf: &mut [u8]) -> Result<usize, ()> {
                ctx.get_request().$method(a.dest, a.x, buf)
            }
            fn expect(a: &A1, _e: u8) -> Expect {
                let mut e = request($code);
                e.push(a.x);
                e.finish()
            }
        }
    };
}
req_onebyte!(ReqGetVendorSupport, "get_vendor_defined_message_support", get_vendor_defined_message_support, 0x06);
req_onebyte!(ReqResolveEndpointId, "resolve_endpoint_id", resolve_endpoint_id, 0x07);
req_onebyte!(ReqGetRoutingTable, "get_routing_table_entries", get_routing_table_entries, 0x0A);

pub struct ReqSetEndpointId;
impl EncCase for ReqSetEndpointId {
    type Args = A2;
    const NAME: &'static str = "set_endpoint_id";
    fn draw<S: Src>(s: &mut S) -> A2 {
        A2 { dest: s.u8(), x: draw_below(s, 4), y: s.u8() }
    }
    fn dest(a: &A2) -> u8 {
        a.dest
    }
    fn call(ctx: &MCTPSMBusContext, a: &A2, buf: &mut [u8]) -> Result<usize, ()> {
        ctx.get_request().set_endpoint_id(a.dest, set_eid_op(a.x), a.y, buf)
    }
    fn expect(a: &A2, _e: u8) -> Expect {
        // DSP0236 12.3: byte 1 operation in bits 1:0, byte 2 endpoint ID
        let mut e = request(0x01);
        e.push(a.x);
        e.push(a.y);
        if a.y == 0x00 || a.y == 0xFF {
            e.ok = false; // documented: reserved EID values are refused
        }
        e.finish()
    }
}

pub struct ReqGetVersion;
impl EncCase for ReqGetVersion {
    type Args = A1;
    const NAME: &'static str = "get_mctp_version_support";
    fn draw<S: Src>(s: &mut S) -> A1 {
        A1 { dest: s.u8(), x: draw_below(s, 5) }
    }
    fn dest(a: &A1) -> u8 {
        a.dest
    }
    fn call(ctx: &MCTPSMBusContext, a: &A1, buf: &mut [u8]) -> Result<usize, ()> {
        ctx.get_request().get_mctp_version_support(a.dest, version_query(a.x).0, buf)
    }
    fn expect(a: &A1, _e: u8) -> Expect {
        let mut e = request(0x04);
        e.push(version_query(a.x).1);
        e.finish()
    }
}

pub struct ReqAllocate;
impl EncCase for ReqAllocate {
    type Args = A3;
    const NAME: &'static str = "allocate_endpoint_ids";
    fn draw<S: Src>(s: &mut S) -> A3 {
        A3 { dest: s.u8(), x: draw_below(s, 3), y: s.u8(), z: s.u8() }
    }
    fn dest(a: &A3) -> u8 {
        a.dest
    }
    fn call(ctx: &MCTPSMBusContext, a: &A3, buf: &mut [u8]) -> Result<usize, ()> {
        ctx.get_request().allocate_endpoint_ids(a.dest, alloc_op(a.x), a.y, a.z, buf)
    }
    fn expect(a: &A3, _e: u8) -> Expect {
        // DSP0236 12.10: operation, pool size, first EID
        let mut e = request(0x08);
        e.push(a.x);
        e.push(a.y);
        e.push(a.z);
        e.finish()
    }
}

pub struct ReqQueryHop;
impl EncCase for ReqQueryHop {
    type Args = A2;
    const NAME: &'static str = "query_hop";
    fn draw<S: Src>(s: &mut S) -> A2 {
        A2 { dest: s.u8(), x: s.u8(), y: draw_below(s, 6) }
    }
    fn dest(a: &A2) -> u8 {
        a.dest
    }
    fn call(ctx: &MCTPSMBusContext, a: &A2, buf: &mut [u8]) -> Result<usize, ()> {
        ctx.get_request().query_hop(a.dest, a.x, msg_type(a.y).0, buf)
    }
    fn expect(a: &A2, _e: u8) -> Expect {
        // DSP0236 12.16 Query Hop = command 0x0F: target EID, message type
        let mut e = request(0x0F);
        e.push(a.x);
        e.push(msg_type(a.y).1);
        e.finish()
    }
}

pub struct UuidArgs {
    pub dest: u8,
    pub uuid: [u8; 16],
    pub x: u8,
}
pub struct ReqResolveUuid;
impl EncCase for ReqResolveUuid {
    type Args = UuidArgs;
    const NAME: &'static str = "resolve_uuid";
    fn draw<S: Src>(s: &mut S) -> UuidArgs {
        UuidArgs { dest: s.u8(), uuid: s.arr(), x: s.u8() }
    }
    fn dest(a: &UuidArgs) -> u8 {
        a.dest
    }
    fn call(ctx: &MCTPSMBusContext, a: &UuidArgs, buf: &mut [u8]) -> Result<usize, ()> {
        ctx.get_request().resolve_uuid(a.dest, &a.uuid, a.x, buf)
    }
    fn expect(a: &UuidArgs, _e: u8) -> Expect {
        let mut e = request(0x10);
        e.extend(&a.uuid);
        e.push(a.x);
        e.finish()
    }
}

/// Backing array size of the routing harness (N <= RT).
pub const RT: usize = 72;

/// Routing Information Update with exactly `N` (<= RT) entries of arbitrary raw
/// content. The entries live in a fixed 10-element backing array and the call
/// gets `&entries[..N]` (an empty `[T; 0]` has a dangling pointer, which makes
/// CBMC unroll the library's `for` loop up to the unwind bound: slow, not wrong).
pub struct RoutingArgs<const N: usize> {
    pub dest: u8,
    pub raw: [[u8; 4]; RT],
}
pub struct ReqRouting<const N: usize>;
impl<const N: usize> EncCase for ReqRouting<N> {
    type Args = RoutingArgs<N>;
    const NAME: &'static str = "routing_information_update";
    fn draw<S: Src>(s: &mut S) -> RoutingArgs<N> {
        let dest = s.u8();
        let mut raw = [[0u8; 4]; RT];
        let mut i = 0;
        while i < N {
            raw[i] = s.arr();
            i += 1;
        }
        RoutingArgs { dest, raw }
    }
    fn dest(a: &RoutingArgs<N>) -> u8 {
        a.dest
    }
    fn call(ctx: &MCTPSMBusContext, a: &RoutingArgs<N>, buf: &mut [u8]) -> Result<usize, ()> {
        let entries: [SMBusRoutingInformationUpdateEntry<[u8; 4]>; RT] =
            core::array::from_fn(|i| SMBusRoutingInformationUpdateEntry::new_from_buf(a.raw[i]));
        ctx.get_request().routing_information_update(a.dest, &entries[..N], buf)
    }
    fn expect(a: &RoutingArgs<N>, _e: u8) -> Expect {
        // DSP0236 12.11: count, then count 4-byte entries
        let mut e = request(0x09);
        if N >= 8 {
            e.ok = false; // documented: more entries than fit are refused
            return e;
        }
        e.push(N as u8);
        let mut i = 0;
        while i < N {
            e.extend(&a.raw[i]);
            i += 1;
        }
        e.finish()
    }
}

// ---------------------------------------------------------------- responses
pub struct RespSetEndpointId;
impl EncCase for RespSetEndpointId {
    type Args = A3; // x = cc index, y = assignment (0/1), z = allocation (0..2)
    const NAME: &'static str = "resp.set_endpoint_id";
    const RESPONSE_HALF: bool = true;
    fn draw<S: Src>(s: &mut S) -> A3 {
        A3 { dest: s.u8(), x: draw_below(s, 6), y: draw_below(s, 2), z: draw_below(s, 3) }
    }
    fn dest(a: &A3) -> u8 {
        a.dest
    }
    fn call(ctx: &MCTPSMBusContext, a: &A3, buf: &mut [u8]) -> Result<usize, ()> {
        let asg = if a.y == 0 { MCTPSetEndpointIDAssignmentStatus::Accpeted } else { MCTPSetEndpointIDAssignmentStatus::Rejected };
        let alc = match a.z {
            0 => MCTPSetEndpointIDAllocationStatus::NoIDPool,
            1 => MCTPSetEndpointIDAllocationStatus::RequiresAllocation,
            _ => MCTPSetEndpointIDAllocationStatus::AlreadyAllocated,
        };
        ctx.get_response().set_endpoint_id(completion(a.x), a.dest, asg, alc, buf)
    }
    fn expect(a: &A3, eid: u8) -> Expect {
        // DSP0236 12.3 response: status byte (assignment 5:4, allocation 1:0), EID setting, pool size
        let mut e = response(0x01, a.x);
        e.push((a.y << 4) | a.z);
        e.push(eid);
        e.push(0);
        e.finish()
    }
}

pub struct A4 {
    pub dest: u8,
    pub cc: u8,
    pub x: u8,
    pub y: u8,
    pub z: bool,
}
pub struct RespGetEndpointId;
impl EncCase for RespGetEndpointId {
    type Args = A4;
    const NAME: &'static str = "resp.get_endpoint_id";
    const RESPONSE_HALF: bool = true;
    fn draw<S: Src>(s: &mut S) -> A4 {
        A4 { dest: s.u8(), cc: draw_below(s, 6), x: draw_below(s, 2), y: draw_below(s, 4), z: s.bool() }
    }
    fn dest(a: &A4) -> u8 {
        a.dest
    }
    fn call(ctx: &MCTPSMBusContext, a: &A4, buf: &mut [u8]) -> Result<usize, ()> {
        let et = if a.x == 0 { MCTPGetEndpointIDEndpointType::Simple } else { MCTPGetEndpointIDEndpointType::Bus };
        let it = match a.y {
            0 => MCTPGetEndpointIDEndpointIDType::DynamicEID,
            1 => MCTPGetEndpointIDEndpointIDType::StaticEID,
            2 => MCTPGetEndpointIDEndpointIDType::StaticPresentMatchEID,
            _ => MCTPGetEndpointIDEndpointIDType::StaticPresentNoMatchEID,
        };
        ctx.get_response().get_endpoint_id(completion(a.cc), a.dest, et, it, a.z, buf)
    }
    fn expect(a: &A4, eid: u8) -> Expect {
        // DSP0236 12.4 response: EID, endpoint type 5:4 | ID type 1:0, medium specific (fairness bit 0)
        let mut e = response(0x02, a.cc);
        e.push(eid);
        e.push((a.x << 4) | a.y);
        e.push(a.z as u8);
        e.finish()
    }
}

pub struct RespUuidArgs {
    pub dest: u8,
    pub cc: u8,
    pub uuid: [u8; 16],
}
pub struct RespGetUuid;
impl EncCase for RespGetUuid {
    type Args = RespUuidArgs;
    const NAME: &'static str = "resp.get_endpoint_uuid";
    const RESPONSE_HALF: bool = true;
    fn draw<S: Src>(s: &mut S) -> RespUuidArgs {
        RespUuidArgs { dest: s.u8(), cc: draw_below(s, 6), uuid: s.arr() }
    }
    fn dest(a: &RespUuidArgs) -> u8 {
        a.dest
    }
    fn call(ctx: &MCTPSMBusContext, a: &RespUuidArgs, buf: &mut [u8]) -> Result<usize, ()> {
        ctx.get_response().get_endpoint_uuid(completion(a.cc), a.dest, &a.uuid, buf)
    }
    fn expect(a: &RespUuidArgs, _eid: u8) -> Expect {
        let mut e = response(0x03, a.cc);
        e.extend(&a.uuid);
        e.finish()
    }
}

pub struct RespGetVersion;
impl EncCase for RespGetVersion {
    type Args = A1; // x = cc
    const NAME: &'static str = "resp.get_mctp_version_support";
    const RESPONSE_HALF: bool = true;
    fn draw<S: Src>(s: &mut S) -> A1 {
        A1 { dest: s.u8(), x: draw_below(s, 6) }
    }
    fn dest(a: &A1) -> u8 {
        a.dest
    }
    fn call(ctx: &MCTPSMBusContext, a: &A1, buf: &mut [u8]) -> Result<usize, ()> {
        ctx.get_response().get_mctp_version_support(completion(a.x), a.dest, buf)
    }
    fn expect(a: &A1, _eid: u8) -> Expect {
        // one version entry: 1.3.1 = F1 F3 F1 00
        let mut e = response(0x04, a.x);
        e.extend(&[0x01, 0xF1, 0xF3, 0xF1, 0x00]);
        e.finish()
    }
}

/// `list[..N]` is the argument; the backing array is fixed-size (see `RoutingArgs`).
pub struct ListArgs<const N: usize> {
    pub dest: u8,
    pub cc: u8,
    pub sel: u8,
    pub list: [u8; 33],
}
fn draw_list<S: Src, const N: usize>(s: &mut S) -> [u8; 33] {
    let mut l = [0u8; 33];
    let mut i = 0;
    while i < N {
        l[i] = s.u8();
        i += 1;
    }
    l
}
/// Get Message Type Support response with exactly `N` types.
pub struct RespMsgTypes<const N: usize>;
impl<const N: usize> EncCase for RespMsgTypes<N> {
    type Args = ListArgs<N>;
    const NAME: &'static str = "resp.get_message_type_suport";
    const RESPONSE_HALF: bool = true;
    fn draw<S: Src>(s: &mut S) -> ListArgs<N> {
        ListArgs { dest: s.u8(), cc: draw_below(s, 6), sel: 0, list: draw_list::<S, N>(s) }
    }
    fn dest(a: &ListArgs<N>) -> u8 {
        a.dest
    }
    fn call(ctx: &MCTPSMBusContext, a: &ListArgs<N>, buf: &mut [u8]) -> Result<usize, ()> {
        ctx.get_response().get_message_type_suport(completion(a.cc), a.dest, &a.list[..N], buf)
    }
    fn expect(a: &ListArgs<N>, _eid: u8) -> Expect {
        let mut e = response(0x05, a.cc);
        if N > 30 {
            e.ok = false; // documented maximum of 30 types
            return e;
        }
        e.push(N as u8);
        e.extend(&a.list[..N]);
        e.finish()
    }
}

/// Get Vendor Defined Message Support response with an `N`-byte vendor ID field.
pub struct RespVendor<const N: usize>;
impl<const N: usize> EncCase for RespVendor<N> {
    type Args = ListArgs<N>;
    const NAME: &'static str = "resp.get_vendor_defined_message_support";
    const RESPONSE_HALF: bool = true;
    fn draw<S: Src>(s: &mut S) -> ListArgs<N> {
        ListArgs { dest: s.u8(), cc: draw_below(s, 6), sel: s.u8(), list: draw_list::<S, N>(s) }
    }
    fn dest(a: &ListArgs<N>) -> u8 {
        a.dest
    }
    fn call(ctx: &MCTPSMBusContext, a: &ListArgs<N>, buf: &mut [u8]) -> Result<usize, ()> {
        ctx.get_response().get_vendor_defined_message_support(completion(a.cc), a.dest, a.sel, &a.list[..N], buf)
    }
    fn expect(a: &ListArgs<N>, _eid: u8) -> Expect {
        let mut e = response(0x06, a.cc);
        e.push(a.sel);
        e.extend(&a.list[..N]);
        e.finish()
    }
}

// ---------------------------------------------------------------- vendor / SPDM
pub struct VendorArgs<const L: usize> {
    pub dest: u8,
    pub format: u8,
    pub data: u32,
    pub numeric: u16,
    pub msg: [u8; L],
}
/// `vendor_defined` with format `F` (0 PCI, 1 IANA, 2 = any other value) and an `L`-byte message.
pub struct VendorDefined<const F: u8, const L: usize>;
impl<const F: u8, const L: usize> EncCase for VendorDefined<F, L> {
    type Args = VendorArgs<L>;
    const NAME: &'static str = "vendor_defined";
    fn draw<S: Src>(s: &mut S) -> VendorArgs<L> {
        let format = if F < 2 {
            F
        } else {
            let f = s.u8();
            s.assume(f >= 2);
            f
        };
        VendorArgs { dest: s.u8(), format, data: s.u32(), numeric: s.u16(), msg: s.arr() }
    }
    fn dest(a: &VendorArgs<L>) -> u8 {
        a.dest
    }
    fn call(ctx: &MCTPSMBusContext, a: &VendorArgs<L>, buf: &mut [u8]) -> Result<usize, ()> {
        let f = VendorIDFormat { format: a.format, data: a.data, numeric_value: a.numeric };
        ctx.get_request().vendor_defined(a.dest, &f, &a.msg, buf)
    }
    fn expect(a: &VendorArgs<L>, _eid: u8) -> Expect {
        if a.format == 0 {
            let mut e = Expect::new(Kind::Message, 0x7E);
            e.push((a.data >> 8) as u8);
            e.push(a.data as u8);
            e.extend(&a.msg);
            e.finish()
        } else if a.format == 1 {
            let mut e = Expect::new(Kind::Message, 0x7F);
            e.push((a.data >> 24) as u8);
            e.push((a.data >> 16) as u8);
            e.push((a.data >> 8) as u8);
            e.push(a.data as u8);
            e.extend(&a.msg);
            e.finish()
        } else {
            let mut e = Expect::new(Kind::Message, 0xFF);
            e.ok = false; // documented: other formats are refused
            e
        }
    }
}

pub struct VendorSymArgs<const MAX: usize> {
    pub dest: u8,
    pub data: u32,
    pub numeric: u16,
    pub msg: [u8; MAX],
    pub n: usize,
}
/// `vendor_defined` (format `F` 0/1) with a message of *symbolic* length 0..=MAX (thorough tier):
/// every packet length in a dense range instead of spot sizes.
pub struct VendorSym<const F: u8, const MAX: usize>;
impl<const F: u8, const MAX: usize> EncCase for VendorSym<F, MAX> {
    type Args = VendorSymArgs<MAX>;
    const NAME: &'static str = "vendor_defined";
    fn draw<S: Src>(s: &mut S) -> VendorSymArgs<MAX> {
        let n = s.usize();
        s.assume(n <= MAX);
        VendorSymArgs { dest: s.u8(), data: s.u32(), numeric: s.u16(), msg: s.arr(), n }
    }
    fn dest(a: &VendorSymArgs<MAX>) -> u8 {
        a.dest
    }
    fn call(ctx: &MCTPSMBusContext, a: &VendorSymArgs<MAX>, buf: &mut [u8]) -> Result<usize, ()> {
        let f = VendorIDFormat { format: F, data: a.data, numeric_value: a.numeric };
        ctx.get_request().vendor_defined(a.dest, &f, &a.msg[..a.n], buf)
    }
    fn expect(a: &VendorSymArgs<MAX>, _eid: u8) -> Expect {
        let mut e = Expect::new(Kind::Message, if F == 0 { 0x7E } else { 0x7F });
        if F == 1 {
            e.push((a.data >> 24) as u8);
            e.push((a.data >> 16) as u8);
        }
        e.push((a.data >> 8) as u8);
        e.push(a.data as u8);
        let mut i = 0;
        while i < MAX {
            if i < a.n {
                e.push(a.msg[i]);
            }
            i += 1;
        }
        e.finish()
    }
}

pub struct RawArgs<const H: usize, const L: usize> {
    pub dest: u8,
    pub which: u8,
    pub hdr: [u8; H],
    pub msg: [u8; L],
}
/// The four public packet writers called directly: `W` 0 control, 1 PCI, 2 IANA,
/// 3 SPDM/secured (symbolic choice); optional header of `H` bytes (0 = None);
/// `R` = call through the response half (a symbolic choice of the half makes
/// the PEC equivalence 100x harder for the SAT solver, so it is an instance parameter).
pub struct Raw<const W: u8, const H: usize, const L: usize, const R: bool>;
impl<const W: u8, const H: usize, const L: usize, const R: bool> EncCase for Raw<W, H, L, R> {
    type Args = RawArgs<H, L>;
    const NAME: &'static str = "generate_*_packet_bytes";
    fn draw<S: Src>(s: &mut S) -> RawArgs<H, L> {
        let which = if W == 3 { draw_below(s, 2) } else { 0 };
        RawArgs { dest: s.u8(), which, hdr: s.arr(), msg: s.arr() }
    }
    fn dest(a: &RawArgs<H, L>) -> u8 {
        a.dest
    }
    fn call(ctx: &MCTPSMBusContext, a: &RawArgs<H, L>, buf: &mut [u8]) -> Result<usize, ()> {
        let h: Option<&[u8]> = if H == 0 { None } else { Some(&a.hdr[..]) };
        if R {
            raw_call::<_, W>(ctx.get_response(), a.dest, a.which, &h, &a.msg, buf)
        } else {
            raw_call::<_, W>(ctx.get_request(), a.dest, a.which, &h, &a.msg, buf)
        }
    }
    fn expect(a: &RawArgs<H, L>, _eid: u8) -> Expect {
        let (kind, typ) = match W {
            0 => (Kind::RawControl, 0x00),
            1 => (Kind::Message, 0x7E),
            2 => (Kind::Message, 0x7F),
            _ => (Kind::Message, if a.which == 0 { 0x05 } else { 0x06 }),
        };
        let mut e = Expect::new(kind, typ);
        e.extend(&a.hdr);
        e.extend(&a.msg);
        e.finish()
    }
}
fn raw_call<T: SMBusMCTPRequestResponse, const W: u8>(
    half: &T,
    dest: u8,
    which: u8,
    h: &Option<&[u8]>,
    msg: &[u8],
    buf: &mut [u8],
) -> Result<usize, ()> {
    match W {
        0 => half.generate_control_packet_bytes(dest, h, msg, buf),
        1 => half.generate_pci_msg_packet_bytes(dest, h, msg, buf),
        2 => half.generate_iana_msg_packet_bytes(dest, h, msg, buf),
        _ => {
            let t = if which == 0 { MessageType::SpdmOverMctp } else { MessageType::SecuredMessages };
            half.generate_spdm_msg_packet_bytes(dest, t, h, msg, buf)
        }
    }
}

// ---------------------------------------------------------------- the runner
fn mt(t: u8) -> MessageType {
    match t {
        0x00 => MessageType::MCtpControl,
        0x05 => MessageType::SpdmOverMctp,
        0x06 => MessageType::SecuredMessages,
        0x7E => MessageType::VendorDefinedPCI,
        0x7F => MessageType::VendorDefinedIANA,
        _ => MessageType::Invalid,
    }
}

/// `MODE`: 0 = everything; 1 = only calls whose round trip hits an open known
/// finding are excluded by the caller (see `c01_*`); unused here.
pub fn run<S: Src, const P: u8, E: EncCase, const B: usize>(s: &mut S) {
    run_mode::<S, P, E, 0, B>(s)
}

/// Same, but the buffer is exactly as long as the packet (`MODE` 3): the spare
/// capacity is concrete, so code that derives sizes from `buf.len()` stays
/// cheap for the symbolic executor (with a symbolic capacity such code makes
/// CBMC run out of memory instead of answering).
pub fn run_fit<S: Src, const P: u8, E: EncCase, const B: usize>(s: &mut S) {
    run_mode::<S, P, E, 3, B>(s)
}

/// C01 on the Get Endpoint ID response: `MODE` 1 = completion code Success
/// excluded while its finding is open, 2 = only Success (the finding's witness).
pub fn run_mode<S: Src, const P: u8, E: EncCase, const MODE: u8, const B: usize>(s: &mut S) {
    let cfg: Cfg<1, 1> = Cfg::draw(s);
    let a = E::draw(s);
    let ctx = cfg.build();
    let req0 = ctx.get_request().get_eid();
    let resp0 = ctx.get_response().get_eid();
    // "the endpoint's current EID" = what its response half reports
    let e = E::expect(&a, resp0);
    let prior: [u8; B] = s.arr();
    let extra = if MODE == 3 {
        0
    } else {
        let x = s.usize();
        s.assume(x <= 8);
        x
    };
    let explen = if e.ok { e.len() } else { if e.oversize { core::cmp::min(e.len(), B - 8) } else { 64 } };
    let cap = explen + extra;
    if MODE == 1 {
        s.assume(!(cfg!(feature = "kf_c01_get_eid_resp_len") && e.kind == Kind::Response && e.body[2] == 0));
    }
    if MODE == 2 {
        s.assume(e.kind == Kind::Response && e.body[2] == 0);
    }
    let mut buf = prior;
    let res = E::call(&ctx, &a, &mut buf[..cap]);
    reached!(s, "enc: the encoder returned");

    // ---------------- C16: documented refusals, exact writes, independence
    if P == C16 {
        chk!(s, P, C16, res.is_ok() == e.ok, "encoder succeeds exactly for arguments that are valid and fit the SMBus frame");
        match res {
            Err(()) => {
                let mut same = true;
                let mut i = 0;
                while i < B {
                    same &= buf[i] == prior[i];
                    i += 1;
                }
                chk!(s, P, C16, same, "a refused call leaves the buffer untouched");
                covopt!(s, P, C16, !e.ok, "enc: documented-invalid argument refused");
            }
            Ok(len) => {
                chk!(s, P, C16, len == e.len(), "reported length is 8 + 1 + body + PEC");
                let mut same = true;
                let mut i = 0;
                while i < 8 {
                    if len + i < B {
                        same &= buf[len + i] == prior[len + i];
                    }
                    i += 1;
                }
                chk!(s, P, C16, same, "bytes beyond the reported length are untouched");
                if B > 128 {
                    // maximum-size instances: the two-run independence check is done on the small ones
                    return;
                }
                // second run: other prior content, other spare capacity → same bytes, same length
                let prior2: [u8; B] = s.arr();
                let extra2 = if MODE == 3 {
                    8
                } else {
                    let x = s.usize();
                    s.assume(x <= 8);
                    x
                };
                let mut buf2 = prior2;
                let res2 = E::call(&ctx, &a, &mut buf2[..explen + extra2]);
                chk!(s, P, C16, res2 == Ok(len), "length does not depend on prior content or spare capacity");
                let mut eq = true;
                let mut i = 0;
                while i < len && i < B {
                    eq &= buf[i] == buf2[i];
                    i += 1;
                }
                chk!(s, P, C16, eq, "written bytes do not depend on prior content or spare capacity");
                covopt!(s, P, C16, extra == 0 && extra2 == 8, "enc: exact-fit and roomy buffer");
                covopt!(s, P, C16, prior[0] != prior2[0] && prior[len - 1] != prior2[len - 1], "enc: different prior contents");
            }
        }
        return;
    }
    // ---------------- refusal parts of C04 / C08
    if !e.ok {
        chk!(s, P, C04, !e.oversize || res.is_err(), "a message too large for the SMBus byte count is refused");
        covopt!(s, P, C04, e.oversize, "enc: oversize message presented");
        chk!(s, P, C08, !(e.kind == Kind::Message && e.typ == 0xFF) || res.is_err(), "a vendor ID format other than PCI/IANA is refused");
        covopt!(s, P, C08, e.kind == Kind::Message && e.typ == 0xFF, "enc: bad vendor format presented");
        return;
    }
    let len = match res {
        Ok(l) => l,
        Err(()) => {
            // valid arguments refused: C16 owns "every other argument succeeds"; the layout
            // properties describe what the encoder produces for these arguments, so no packet
            // at all is a violation of them too
            chk!(s, P, C06, false, "request: valid arguments are encoded");
            chk!(s, P, C07, false, "response: valid arguments are encoded");
            chk!(s, P, C08, false, "message: a PCI / IANA / SPDM message that fits is encoded");
            return;
        }
    };
    if len != e.len() {
        chk!(s, P, C01, false, "reported length is 8 header bytes + type + body + PEC");
        chk!(s, P, C03, false, "reported length is 8 header bytes + type + body + PEC");
        chk!(s, P, C04, false, "reported length is 8 header bytes + type + body + PEC");
        chk!(s, P, C06, false, "request: nothing but the header and the command's parameters is encoded");
        chk!(s, P, C07, false, "response: nothing but the header and the command's fields is encoded");
        chk!(s, P, C08, false, "message: nothing but type, header and body is encoded");
        return;
    }
    // from here on use the oracle's (solver-concrete) value of the length
    let len = e.len();
    let src = cfg.addr;
    let dst = E::dest(&a);

    // ---------------- C03
    if P == C03 {
        chk!(s, P, C03, buf[len - 1] == ref_crc8(&buf[..len - 1]), "last byte is the CRC-8 (poly 0x07, init 0) of all preceding bytes");
        chk!(s, P, C03, len == e.len(), "the PEC is the byte right after the body");
        covopt!(s, P, C03, buf[len - 1] != 0, "enc: non-zero PEC");
    }
    // ---------------- C04
    if P == C04 {
        chk!(s, P, C04, buf[0] & 1 == 0 && (dst >= 0x80 || buf[0] >> 1 == dst), "byte 0 = destination 7-bit address << 1, write bit clear");
        chk!(s, P, C04, buf[1] == 0x0F, "byte 1 = MCTP over SMBus command code 0x0F");
        chk!(s, P, C04, buf[2] as usize == e.len() - 4 && len == e.len(), "byte count = bytes between byte-count field and PEC; returned length = byte count + 4");
        chk!(s, P, C04, buf[3] & 1 == 1 && (src >= 0x80 || buf[3] >> 1 == src), "byte 3 = source 7-bit address << 1 | 1");
        let k = s.usize();
        s.assume(k >= 3 && k <= len);
        let other: Cfg<1, 1> = Cfg::draw(s);
        let octx = other.build();
        chk!(s, P, C04, octx.get_length(&buf[..k]) == Ok(len), "get_length on every prefix of >= 3 bytes returns the encoder's length");
        covopt!(s, P, C04, k == 3, "enc: three-byte prefix probed");
        covopt!(s, P, C04, k == len && dst == 0x7F && src == 0x7F, "enc: whole packet probed, largest 7-bit addresses");
    }
    // ---------------- C05
    if P == C05 {
        chk!(s, P, C05, buf[4] == 0x01, "byte 4: reserved 0, header version 1");
        chk!(s, P, C05, buf[5] == dst, "byte 5: destination endpoint ID = destination named by the caller");
        chk!(s, P, C05, buf[6] == src, "byte 6: source endpoint ID = own address");
        if e.kind == Kind::Response {
            chk!(s, P, C05, buf[7] & 0xF0 == 0xC0, "byte 7 (response): SOM 1, EOM 1, sequence 0");
        } else {
            chk!(s, P, C05, buf[7] == 0xC8, "byte 7: SOM 1, EOM 1, sequence 0, tag owner 1, tag 0");
        }
        chk!(s, P, C05, buf[8] == e.typ, "byte 8: IC clear, message type of the API used");
        covopt!(s, P, C05, src > 0x7F && dst > 0x7F, "enc: 8-bit source and destination values");
    }
    // ---------------- C06 / C07 / C08: body bytes
    if P == C06 || P == C07 || P == C08 {
        let mut eq = true;
        let mut first3 = true;
        let mut i = 0;
        while i < e.blen {
            let same = 9 + i < len && buf[9 + i] == e.body[i];
            eq &= same;
            if i < 3 {
                first3 &= same;
            }
            i += 1;
        }
        let sized = len == e.len();
        if e.kind == Kind::Request {
            chk!(s, P, C06, buf[9] == 0x80, "request: Rq set, D clear, reserved clear, instance ID 0");
            chk!(s, P, C06, buf[10] == e.body[1], "request: DSP0236 command code of this command");
            let mut params = true;
            let mut i = 2;
            while i < e.blen {
                params &= 9 + i < len && buf[9 + i] == e.body[i];
                i += 1;
            }
            chk!(s, P, C06, params && sized, "request: exactly the command's parameters in specification order, nothing else");
            covopt!(s, P, C06, sized, "enc: request encoded");
        }
        if e.kind == Kind::Response {
            chk!(s, P, C07, first3, "response: Rq/D/reserved clear, command code, caller's completion code");
            if e.body[2] == 0 {
                chk!(s, P, C07, eq && sized, "Success response: exactly the command's response fields in DSP0236 order");
                covopt!(s, P, C07, sized, "enc: Success response encoded");
            } else {
                covopt!(s, P, C07, e.body[2] == 5, "enc: completion code 5 encoded");
            }
        }
        if e.kind == Kind::Message {
            chk!(s, P, C08, buf[8] == e.typ && eq && sized, "message: type byte, then header and body verbatim");
            covopt!(s, P, C08, sized, "enc: message encoded");
        }
    }
    // ---------------- C13: an encoder call changes neither EID cell
    if P == C13 {
        chk!(s, P, C13, ctx.get_request().get_eid() == req0 && ctx.get_response().get_eid() == resp0, "encoding leaves the EID of both halves unchanged");
        covopt!(s, P, C13, req0 != resp0, "enc: halves hold different EIDs");
    }
    // ---------------- C01: decode what was encoded, on another arbitrary context
    if P == C01 {
        let rx: Cfg<1, 1> = Cfg::draw(s);
        let rctx = rx.build();
        let d = rctx.decode_packet(&buf[..len]);
        let off = match e.kind {
            Kind::Request | Kind::RawControl => 11,
            Kind::Response => 12,
            Kind::Message => 9,
        };
        if e.kind == Kind::Response && e.body[2] != 0 {
            let want = Err((
                MessageType::MCtpControl,
                DecodeError::ControlMessage(ControlMessageError::UnsuccessfulCompletionCode(completion(e.body[2]))),
            ));
            chk!(s, P, C01, d == want, "non-Success response decodes to UnsuccessfulCompletionCode carrying exactly that code");
            covopt!(s, P, C01, e.body[2] == 3, "rt: completion code 3 round trip");
        } else if e.kind == Kind::RawControl {
            // header bytes chosen by the caller: outside C01's statement (used for C03/C04/C16 only)
        } else {
            match d {
                Ok((t, p)) => {
                    chk!(s, P, C01, t == mt(e.typ), "decoded message type is the type encoded");
                    chk!(s, P, C01, p.len() == len - 1 - off && core::ptr::eq(p.as_ptr(), buf[off..].as_ptr()), "payload is the sub-slice of the input that ends right before the PEC");
                    let mut eq = p.len() == e.blen - (off - 9);
                    let mut i = 0;
                    while i < p.len() && i + (off - 9) < e.blen {
                        eq &= p[i] == e.body[i + (off - 9)];
                        i += 1;
                    }
                    chk!(s, P, C01, eq, "payload is byte for byte what was encoded");
                    covopt!(s, P, C01, true, "rt: accepted");
                }
                Err(_) => {
                    chk!(s, P, C01, false, "the library's own packet is accepted by its decoder");
                }
            }
        }
    }
}

/// C07 / C13 (history): two EID-reporting response encoders in a row on the same
/// context. `FIRST` / `SECOND`: 0 = Set Endpoint ID response, 1 = Get Endpoint ID
/// response. The second response must still report the EID the context held
/// before the first call (an encoder that consumes or changes the stored EID is
/// invisible to a single-call check).
pub fn resp_eid_twice<S: Src, const P: u8, const FIRST: u8, const SECOND: u8>(s: &mut S) {
    let cfg: Cfg<1, 1> = Cfg::draw(s);
    let ctx = cfg.build();
    let resp0 = ctx.get_response().get_eid();
    let req0 = ctx.get_request().get_eid();
    let mut b1: [u8; 24] = s.arr();
    let mut b2: [u8; 24] = s.arr();
    let d1 = s.u8();
    let d2 = s.u8();
    let cc1 = draw_below(s, 6);
    let r1 = if FIRST == 0 {
        ctx.get_response().set_endpoint_id(completion(cc1), d1, MCTPSetEndpointIDAssignmentStatus::Accpeted, MCTPSetEndpointIDAllocationStatus::NoIDPool, &mut b1)
    } else {
        ctx.get_response().get_endpoint_id(completion(cc1), d1, MCTPGetEndpointIDEndpointType::Simple, MCTPGetEndpointIDEndpointIDType::DynamicEID, false, &mut b1)
    };
    let r2 = if SECOND == 0 {
        ctx.get_response().set_endpoint_id(CompletionCode::Success, d2, MCTPSetEndpointIDAssignmentStatus::Accpeted, MCTPSetEndpointIDAllocationStatus::NoIDPool, &mut b2)
    } else {
        ctx.get_response().get_endpoint_id(CompletionCode::Success, d2, MCTPGetEndpointIDEndpointType::Simple, MCTPGetEndpointIDEndpointIDType::DynamicEID, false, &mut b2)
    };
    reached!(s, "enc: two responses encoded");
    let eid_at = if SECOND == 0 { 13 } else { 12 };
    chk!(s, P, C07, r1 == Ok(16) && r2 == Ok(16) && b2[11] == 0 && b2[eid_at] == resp0, "a second response still reports the EID the context held before the first one");
    chk!(s, P, C13, ctx.get_response().get_eid() == resp0 && ctx.get_request().get_eid() == req0, "encoding two responses leaves the EID of both halves unchanged");
    covopt!(s, P, C07, resp0 == 0x5A, "enc: EID 0x5A reported twice");
    covopt!(s, P, C13, resp0 != req0, "enc: halves hold different EIDs");
}
