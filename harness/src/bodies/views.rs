//! C18 — header views read and write exactly their documented bit positions.
//! Expected values are byte-level expressions of the DSP0236/DSP0237 layouts.
use crate::src::Src;
use crate::{chk, cov};
use libmctp::base_packet::{MCTPMessageBodyHeader, MCTPTransportHeader};
use libmctp::control_packet::MCTPControlMessageHeader;
use libmctp::smbus_proto::{MCTPSMBusHeader, SMBusRoutingInformationUpdateEntry};
use libmctp::vendor_packets::{IANAMessageFormat, PCIMessageFormat};

/// Setter check: apply `$set(v)` to a fresh view over `raw`, compare the whole
/// backing buffer to `$expect` (⇒ only the field's bits changed, value
/// truncated to the width) and read the field back.
macro_rules! setter {
    ($s:expr, $p:expr, $ctor:expr, $raw:expr, $v:expr, $set:ident, $get:ident, $expect:expr, $rb:expr, $m:literal) => {{
        let mut h = $ctor($raw);
        h.$set($v);
        chk!($s, $p, C18, h.0 == $expect, $m);
        chk!($s, $p, C18, h.$get() == $rb, $m);
    }};
}

pub fn smbus_header<S: Src, const P: u8>(s: &mut S) {
    let raw: [u8; 4] = s.arr();
    let v = s.u8();
    let h = MCTPSMBusHeader::new_from_buf(raw);
    chk!(s, P, C18, h.dest_read_write() == raw[0] & 1, "smbus: R/W# is byte0 bit0");
    chk!(s, P, C18, h.dest_slave_addr() == raw[0] >> 1, "smbus: destination address is byte0 bits 7:1");
    chk!(s, P, C18, h.command_code() == raw[1], "smbus: command code is byte1");
    chk!(s, P, C18, h.byte_count() == raw[2], "smbus: byte count is byte2");
    chk!(s, P, C18, h.source_read_write() == raw[3] & 1, "smbus: source bit0 is byte3 bit0");
    chk!(s, P, C18, h.source_slave_addr() == raw[3] >> 1, "smbus: source address is byte3 bits 7:1");
    let c = MCTPSMBusHeader::new_from_buf;
    setter!(s, P, c, raw, v, set_dest_read_write, dest_read_write, [(raw[0] & 0xFE) | (v & 1), raw[1], raw[2], raw[3]], v & 1, "smbus: set R/W#");
    setter!(s, P, c, raw, v, set_dest_slave_addr, dest_slave_addr, [(raw[0] & 1) | (v << 1), raw[1], raw[2], raw[3]], v & 0x7F, "smbus: set destination address");
    setter!(s, P, c, raw, v, set_command_code, command_code, [raw[0], v, raw[2], raw[3]], v, "smbus: set command code");
    setter!(s, P, c, raw, v, set_byte_count, byte_count, [raw[0], raw[1], v, raw[3]], v, "smbus: set byte count");
    setter!(s, P, c, raw, v, set_source_read_write, source_read_write, [raw[0], raw[1], raw[2], (raw[3] & 0xFE) | (v & 1)], v & 1, "smbus: set source bit0");
    setter!(s, P, c, raw, v, set_source_slave_addr, source_slave_addr, [raw[0], raw[1], raw[2], (raw[3] & 1) | (v << 1)], v & 0x7F, "smbus: set source address");
    let z = MCTPSMBusHeader::new();
    chk!(s, P, C18, z.0 == [0u8; 4], "smbus: new() is all zero");
    cov!(s, P, C18, v > 0x7F && raw[0] == 0xFF, "smbus: wide value into full buffer");
}

pub fn transport_header<S: Src, const P: u8>(s: &mut S) {
    let raw: [u8; 4] = s.arr();
    let v = s.u8();
    let ver = s.u8();
    let r = MCTPTransportHeader::new_from_buf(raw, ver);
    let ok = (raw[0] >> 4) == 0 && (raw[0] & 0x0F) == ver;
    chk!(s, P, C18, r.is_ok() == ok, "transport: new_from_buf Ok iff reserved bits zero and version matches");
    cov!(s, P, C18, r.is_ok(), "transport: accepted");
    cov!(s, P, C18, r.is_err() && (raw[0] >> 4) == 0, "transport: rejected for version only");
    cov!(s, P, C18, r.is_err() && (raw[0] & 0x0F) == ver, "transport: rejected for reserved bits only");
    if let Ok(h) = r {
        chk!(s, P, C18, h.0 == raw, "transport: accepted header keeps its bytes");
    }
    // getters / setters on an unchecked view of the same bytes
    let h = MCTPTransportHeader(raw);
    chk!(s, P, C18, h.hdr_version() == raw[0] & 0x0F, "transport: version is byte0 bits 3:0");
    chk!(s, P, C18, h.dest_endpoint_id() == raw[1], "transport: destination EID is byte1");
    chk!(s, P, C18, h.source_endpoint_id() == raw[2], "transport: source EID is byte2");
    chk!(s, P, C18, h.som() == raw[3] >> 7, "transport: SOM is byte3 bit7");
    chk!(s, P, C18, h.eom() == (raw[3] >> 6) & 1, "transport: EOM is byte3 bit6");
    chk!(s, P, C18, h.pkt_seq() == (raw[3] >> 4) & 3, "transport: packet sequence is byte3 bits 5:4");
    chk!(s, P, C18, h.to() == (raw[3] >> 3) & 1, "transport: tag owner is byte3 bit3");
    chk!(s, P, C18, h.msg_tag() == raw[3] & 7, "transport: message tag is byte3 bits 2:0");
    let c = |b: [u8; 4]| MCTPTransportHeader(b);
    setter!(s, P, c, raw, v, set_hdr_version, hdr_version, [(raw[0] & 0xF0) | (v & 0x0F), raw[1], raw[2], raw[3]], v & 0x0F, "transport: set version");
    setter!(s, P, c, raw, v, set_dest_endpoint_id, dest_endpoint_id, [raw[0], v, raw[2], raw[3]], v, "transport: set destination EID");
    setter!(s, P, c, raw, v, set_source_endpoint_id, source_endpoint_id, [raw[0], raw[1], v, raw[3]], v, "transport: set source EID");
    setter!(s, P, c, raw, v, set_som, som, [raw[0], raw[1], raw[2], (raw[3] & 0x7F) | ((v & 1) << 7)], v & 1, "transport: set SOM");
    setter!(s, P, c, raw, v, set_eom, eom, [raw[0], raw[1], raw[2], (raw[3] & 0xBF) | ((v & 1) << 6)], v & 1, "transport: set EOM");
    setter!(s, P, c, raw, v, set_pkt_seq, pkt_seq, [raw[0], raw[1], raw[2], (raw[3] & 0xCF) | ((v & 3) << 4)], v & 3, "transport: set packet sequence");
    setter!(s, P, c, raw, v, set_to, to, [raw[0], raw[1], raw[2], (raw[3] & 0xF7) | ((v & 1) << 3)], v & 1, "transport: set tag owner");
    setter!(s, P, c, raw, v, set_msg_tag, msg_tag, [raw[0], raw[1], raw[2], (raw[3] & 0xF8) | (v & 7)], v & 7, "transport: set message tag");
    let n = MCTPTransportHeader::new(v);
    chk!(s, P, C18, n.0 == [v & 0x0F, 0, 0, 0], "transport: new(version) stores the version only");
}

pub fn body_header<S: Src, const P: u8>(s: &mut S) {
    let raw: [u8; 1] = s.arr();
    let v = s.u8();
    let r = MCTPMessageBodyHeader::new_from_buf(raw);
    let t = raw[0] & 0x7F;
    let ok = (raw[0] >> 7) == 0 && crate::oracle::supported_type(t);
    chk!(s, P, C18, r.is_ok() == ok, "body: new_from_buf Ok iff IC clear and type supported");
    cov!(s, P, C18, r.is_ok() && t == 0x7F, "body: IANA accepted");
    cov!(s, P, C18, r.is_err() && (raw[0] >> 7) == 0, "body: rejected for type only");
    cov!(s, P, C18, r.is_err() && crate::oracle::supported_type(t), "body: rejected for IC only");
    if let Ok(h) = r {
        chk!(s, P, C18, h.0 == raw, "body: accepted header keeps its byte");
    }
    let h = MCTPMessageBodyHeader(raw);
    chk!(s, P, C18, h.msg_type() == t, "body: type is bits 6:0");
    let c = |b: [u8; 1]| MCTPMessageBodyHeader(b);
    setter!(s, P, c, raw, v, set_msg_type, msg_type, [(raw[0] & 0x80) | (v & 0x7F)], v & 0x7F, "body: set type");
}

pub fn control_header<S: Src, const P: u8>(s: &mut S) {
    let raw: [u8; 2] = s.arr();
    let v = s.u8();
    let h = MCTPControlMessageHeader::new_from_buf(raw);
    chk!(s, P, C18, h.rq() == raw[0] >> 7, "control: Rq is byte0 bit7");
    chk!(s, P, C18, h.d() == (raw[0] >> 6) & 1, "control: D is byte0 bit6");
    chk!(s, P, C18, h.instance_id() == raw[0] & 0x1F, "control: instance ID is byte0 bits 4:0");
    chk!(s, P, C18, h.command_code() == raw[1], "control: command code is byte1");
    let c = MCTPControlMessageHeader::new_from_buf;
    setter!(s, P, c, raw, v, set_rq, rq, [(raw[0] & 0x7F) | ((v & 1) << 7), raw[1]], v & 1, "control: set Rq");
    setter!(s, P, c, raw, v, set_d, d, [(raw[0] & 0xBF) | ((v & 1) << 6), raw[1]], v & 1, "control: set D");
    setter!(s, P, c, raw, v, set_instance_id, instance_id, [(raw[0] & 0xE0) | (v & 0x1F), raw[1]], v & 0x1F, "control: set instance ID");
    setter!(s, P, c, raw, v, set_command_code, command_code, [raw[0], v], v, "control: set command code");
    cov!(s, P, C18, raw[0] == 0xFF && v == 0, "control: clearing fields of a full byte");
}

pub fn routing_entry<S: Src, const P: u8>(s: &mut S) {
    let raw: [u8; 4] = s.arr();
    let v = s.u8();
    let h = SMBusRoutingInformationUpdateEntry::new_from_buf(raw);
    chk!(s, P, C18, h.entry_type() == raw[0] & 0x0F, "routing: entry type is byte0 bits 3:0");
    chk!(s, P, C18, h.eid_range_size() == raw[1], "routing: range size is byte1");
    chk!(s, P, C18, h.first_eid() == raw[2], "routing: first EID is byte2");
    chk!(s, P, C18, h.physical_address() == raw[3], "routing: physical address is byte3");
    let c = SMBusRoutingInformationUpdateEntry::new_from_buf;
    setter!(s, P, c, raw, v, set_entry_type, entry_type, [(raw[0] & 0xF0) | (v & 0x0F), raw[1], raw[2], raw[3]], v & 0x0F, "routing: set entry type");
    setter!(s, P, c, raw, v, set_eid_range_size, eid_range_size, [raw[0], v, raw[2], raw[3]], v, "routing: set range size");
    setter!(s, P, c, raw, v, set_first_eid, first_eid, [raw[0], raw[1], v, raw[3]], v, "routing: set first EID");
    setter!(s, P, c, raw, v, set_physical_address, physical_address, [raw[0], raw[1], raw[2], v], v, "routing: set physical address");
}

pub fn vendor_headers<S: Src, const P: u8>(s: &mut S) {
    let raw2: [u8; 2] = s.arr();
    let raw4: [u8; 4] = s.arr();
    let v16 = s.u16();
    let v32 = s.u32();
    let p = PCIMessageFormat::new_from_buf(raw2);
    chk!(s, P, C18, p.vendor_id() == ((raw2[0] as u16) << 8 | raw2[1] as u16), "pci: vendor ID is big endian");
    let mut p2 = PCIMessageFormat::new_from_buf(raw2);
    p2.set_vendor_id(v16);
    chk!(s, P, C18, p2.0 == [(v16 >> 8) as u8, v16 as u8], "pci: set vendor ID writes both bytes MSB first");
    chk!(s, P, C18, p2.vendor_id() == v16, "pci: read back");
    chk!(s, P, C18, PCIMessageFormat::new(v16).0 == [(v16 >> 8) as u8, v16 as u8], "pci: new(id)");
    let i = IANAMessageFormat::new_from_buf(raw4);
    let be = (raw4[0] as u32) << 24 | (raw4[1] as u32) << 16 | (raw4[2] as u32) << 8 | raw4[3] as u32;
    chk!(s, P, C18, i.vendor_id() == be, "iana: enterprise number is big endian");
    let mut i2 = IANAMessageFormat::new_from_buf(raw4);
    i2.set_vendor_id(v32);
    let want = [(v32 >> 24) as u8, (v32 >> 16) as u8, (v32 >> 8) as u8, v32 as u8];
    chk!(s, P, C18, i2.0 == want, "iana: set enterprise number writes four bytes MSB first");
    chk!(s, P, C18, i2.vendor_id() == v32, "iana: read back");
    chk!(s, P, C18, IANAMessageFormat::new(v32).0 == want, "iana: new(id)");
    cov!(s, P, C18, v16 == 0x1234 && v32 == 0x1234_5678, "vendor: asymmetric ids");
}
