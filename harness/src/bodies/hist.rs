//! Small steps and short histories that complement the one-step process
//! harness: initial state, accessor steps (C13), burst corruption (C02),
//! and thorough-tier two-call histories that do not use the selector hook
//! (C13, C14, C15) — a cross-check of the inductive argument of DESIGN §3.6.
use super::ctx::Cfg;
use super::dec::{judge, ref_decode};
use crate::kf;
use crate::src::*;
use crate::{chk, cov, covopt, reached};
use libmctp::mctp_traits::SMBusMCTPRequestResponse;
use libmctp::vendor_packets::VendorIDFormat;
use libmctp::MCTPSMBusContext;

/// C13: a freshly created context reports EID 0 through both halves.
pub fn init<S: Src, const P: u8>(s: &mut S) {
    let addr = s.u8();
    let types: [u8; 2] = s.arr();
    let vend = [VendorIDFormat { format: s.u8(), data: s.u32(), numeric_value: s.u16() }];
    let ctx = MCTPSMBusContext::new(addr, &types, &vend);
    chk!(s, P, C13, ctx.get_request().get_eid() == 0 && ctx.get_response().get_eid() == 0, "a new context reports EID 0 through both halves");
    chk!(s, P, C13, ctx.get_request().get_address() == addr && ctx.get_response().get_address() == addr, "both halves carry the configured address");
    reached!(s, "init: context created");
}

/// C13: accessor step from an arbitrary state. (The two halves may or may not
/// share one cell — the property only says a stored value is what is reported.)
pub fn accessor<S: Src, const P: u8>(s: &mut S) {
    let cfg: Cfg<1, 1> = Cfg::draw(s);
    let ctx = cfg.build();
    let req0 = ctx.get_request().get_eid();
    let resp0 = ctx.get_response().get_eid();
    let sel0 = ctx.verif_get_vendor_id_selector();
    let v = s.u8();
    if s.bool() {
        ctx.get_request().set_eid(v);
        chk!(s, P, C13, ctx.get_request().get_eid() == v, "request half: get_eid returns the value just stored");
        let o = ctx.get_response().get_eid();
        chk!(s, P, C13, o == resp0 || o == v, "storing through the request half gives the response half either its old value or the stored one");
        cov!(s, P, C13, v != req0, "accessor: request half changed");
    } else {
        ctx.get_response().set_eid(v);
        chk!(s, P, C13, ctx.get_response().get_eid() == v, "response half: get_eid returns the value just stored");
        let o = ctx.get_request().get_eid();
        chk!(s, P, C13, o == req0 || o == v, "storing through the response half gives the request half either its old value or the stored one");
        cov!(s, P, C13, v != resp0, "accessor: response half changed");
    }
    chk!(s, P, C13, ctx.verif_get_vendor_id_selector() == sel0, "accessors do not touch other state");
}

/// C02(c): any corruption of a valid packet confined to eight consecutive bits is rejected.
pub fn burst<S: Src, const P: u8, const N: usize>(s: &mut S) {
    let cfg: Cfg<1, 1> = Cfg::draw(s);
    let a: [u8; N] = s.arr();
    s.assume(!kf::dec_any(&a));
    let ctx = cfg.build();
    let valid = ctx.decode_packet(&a).is_ok();
    s.assume(valid);
    let o = s.usize();
    s.assume(o <= 8 * N - 8);
    let p = s.u8();
    s.assume(p != 0);
    let byte = o / 8;
    let sh = (o % 8) as u32;
    // bit 0 of the burst lands on bit (7 - sh) of `byte` (MSB-first numbering)
    let w: u16 = (p as u16) << (8 - sh);
    let mut c = a;
    c[byte] ^= (w >> 8) as u8;
    if sh != 0 {
        c[byte + 1] ^= w as u8;
    }
    s.assume(!kf::dec_any(&c));
    let r = ctx.decode_packet(&c);
    chk!(s, P, C02, r.is_err(), "a valid packet corrupted within eight consecutive bits is never accepted");
    cov!(s, P, C02, byte == N - 1, "burst: corruption confined to the PEC byte");
    cov!(s, P, C02, sh == 5 && byte == 9 && p == 0xFF, "burst: eight flipped bits straddling two body bytes");
    cov!(s, P, C02, byte == 0 && p == 1, "burst: single bit in the first byte");
}

fn valid_vendors<S: Src, const NV: usize>(s: &mut S) -> ([VendorIDFormat; NV], usize) {
    let vend: [VendorIDFormat; NV] = core::array::from_fn(|_| VendorIDFormat { format: s.u8(), data: s.u32(), numeric_value: s.u16() });
    let nv = s.usize();
    s.assume(nv >= 1 && nv <= NV);
    let mut i = 0;
    while i < NV {
        s.assume(vend[i].format <= 1);
        i += 1;
    }
    (vend, nv)
}

/// C13 (thorough): a real two-packet history from a fresh context — Set
/// Endpoint ID (arbitrary 14 bytes) then Get Endpoint ID (arbitrary 12 bytes).
pub fn set_then_get<S: Src, const P: u8>(s: &mut S) {
    let addr = s.u8();
    let (vend, nv) = valid_vendors::<S, 1>(s);
    let p1: [u8; 14] = s.arr();
    let p2: [u8; 12] = s.arr();
    let r1 = ref_decode(&p1);
    let r2 = ref_decode(&p2);
    s.assume(!kf::dec_any(&p1) && !kf::proc_any(&p1, r1.pec_ok, nv));
    s.assume(!kf::dec_any(&p2) && !kf::proc_any(&p2, r2.pec_ok, nv));
    let ctx = MCTPSMBusContext::new(addr, &[], &vend[..nv]);
    let mut o1 = [0u8; 64];
    let mut o2 = [0u8; 64];
    let _ = ctx.process_packet(&p1, &mut o1);
    let a2 = ctx.process_packet(&p2, &mut o2);
    reached!(s, "hist: two packets processed");
    let assigned = r1.accept && r1.is_control && r1.is_request && p1[10] == 1 && (p1[11] == 0 || p1[11] == 1);
    let expect = if assigned { p1[12] } else { 0 };
    chk!(s, P, C13, ctx.get_request().get_eid() == expect && ctx.get_response().get_eid() == expect, "after [Set Endpoint ID?, anything]: EID is the assigned one, or 0");
    if r2.accept && r2.is_control && r2.is_request && p2[10] == 2 {
        let ok = match a2 {
            Ok((_, Some(16))) => o2[11] == 0 && o2[12] == expect,
            _ => false,
        };
        chk!(s, P, C13, ok, "Get Endpoint ID after the history reports the last assigned EID");
        cov!(s, P, C13, assigned && expect == 0x77, "hist: assigned 0x77 then read back");
        cov!(s, P, C13, !assigned && r1.hdr_ok && p1[10] == 1 && !r1.pec_ok, "hist: corrupted assignment then read back 0");
    }
}

/// C14 (thorough): two enumeration queries in arbitrary order from a fresh
/// context, no hook: the second answer depends on the configuration and its own selector only.
pub fn vendor_twice<S: Src, const P: u8, const NV: usize>(s: &mut S) {
    let addr = s.u8();
    let (vend, nv) = valid_vendors::<S, NV>(s);
    let p1: [u8; 13] = s.arr();
    let p2: [u8; 13] = s.arr();
    let r1 = ref_decode(&p1);
    let r2 = ref_decode(&p2);
    s.assume(!kf::dec_any(&p1) && !kf::proc_any(&p1, r1.pec_ok, nv));
    s.assume(!kf::dec_any(&p2) && !kf::proc_any(&p2, r2.pec_ok, nv));
    let ctx = MCTPSMBusContext::new(addr, &[], &vend[..nv]);
    let mut o1 = [0u8; 64];
    let mut o2 = [0u8; 64];
    let _ = ctx.process_packet(&p1, &mut o1);
    let a2 = ctx.process_packet(&p2, &mut o2);
    reached!(s, "hist: two packets processed");
    if r2.accept && r2.is_control && r2.is_request && p2[10] == 6 && (p2[11] as usize) < nv {
        let i = p2[11] as usize;
        let v = &vend[i];
        let next = if i == nv - 1 { 0xFF } else { p2[11] + 1 };
        let ok = match a2 {
            Ok((_, Some(n))) => {
                o2[11] == 0 && o2[12] == next && o2[13] == v.format
                    && if v.format == 0 {
                        n == 19 && o2[14] == (v.data >> 8) as u8 && o2[15] == v.data as u8 && o2[16] == (v.numeric_value >> 8) as u8 && o2[17] == v.numeric_value as u8
                    } else {
                        n == 21 && o2[14] == (v.data >> 24) as u8 && o2[15] == (v.data >> 16) as u8 && o2[16] == (v.data >> 8) as u8 && o2[17] == v.data as u8
                            && o2[18] == (v.numeric_value >> 8) as u8 && o2[19] == v.numeric_value as u8
                    }
            }
            _ => false,
        };
        chk!(s, P, C14, ok, "second query: set i in its own format, next selector i+1 / 0xFF — whatever was asked before");
        covopt!(s, P, C14, r1.accept && p1[10] == 6 && p1[11] > p2[11], "hist: selectors queried out of order");
        covopt!(s, P, C14, r1.accept && p1[10] == 6 && p1[11] as usize == nv - 1 && p2[11] == 0, "hist: enumeration restarted after the end");
    }
}

/// C15 (thorough): two UUID installs, other traffic, then Get Endpoint UUID.
pub fn uuid_twice<S: Src, const P: u8>(s: &mut S) {
    let addr = s.u8();
    let (vend, nv) = valid_vendors::<S, 1>(s);
    let u1: [u8; 16] = s.arr();
    let u2: [u8; 16] = s.arr();
    let p1: [u8; 14] = s.arr();
    let p2: [u8; 12] = s.arr();
    let r1 = ref_decode(&p1);
    let r2 = ref_decode(&p2);
    s.assume(!kf::dec_any(&p1) && !kf::proc_any(&p1, r1.pec_ok, nv));
    s.assume(!kf::dec_any(&p2) && !kf::proc_any(&p2, r2.pec_ok, nv));
    let mut ctx = MCTPSMBusContext::new(addr, &[], &vend[..nv]);
    ctx.set_uuid(&u1);
    ctx.set_uuid(&u2);
    let mut o1 = [0u8; 64];
    let mut o2 = [0u8; 64];
    let _ = ctx.process_packet(&p1, &mut o1);
    let a2 = ctx.process_packet(&p2, &mut o2);
    reached!(s, "hist: two packets processed");
    if r2.accept && r2.is_control && r2.is_request && p2[10] == 3 {
        let mut ok = match a2 {
            Ok((_, Some(29))) => o2[11] == 0,
            _ => false,
        };
        let mut i = 0;
        while i < 16 {
            ok &= o2[12 + i] == u2[i];
            i += 1;
        }
        chk!(s, P, C15, ok, "Get Endpoint UUID reports the UUID installed last, unaffected by the packet processed in between");
        cov!(s, P, C15, u1[0] != u2[0] && r1.accept, "hist: differing UUIDs, traffic in between");
    }
}

/// C09 / C02: the same context decodes twice from the *same buffer*, whose
/// content is replaced in between. The second verdict must be the one the
/// bytes alone deserve (no dependence on history or on buffer identity).
pub fn dec_twice<S: Src, const P: u8, const N: usize>(s: &mut S) {
    let cfg: Cfg<1, 1> = Cfg::draw(s);
    let first: [u8; N] = s.arr();
    let second: [u8; N] = s.arr();
    let n = s.usize();
    s.assume(n <= N);
    s.assume(!kf::dec_any(&first[..n]) && !kf::dec_any(&second[..n]));
    let ctx = cfg.build();
    let mut buf = first;
    let _ = ctx.decode_packet(&buf[..n]);
    let mut i = 0;
    while i < N {
        buf[i] = second[i];
        i += 1;
    }
    let r2 = ctx.decode_packet(&buf[..n]);
    reached!(s, "hist: second decode from the same buffer returned");
    judge::<S, P>(s, &buf[..n], &r2);
}

/// C09: "the outcome depends on the bytes alone, not on the context's address,
/// configuration or history" as a 2-safety statement: two unrelated contexts
/// (own configuration, own cell values) decode the same bytes and must report the
/// same acceptance, type and payload slice, or the very same error (the reference
/// decoder only says which errors are *truthful*; this pins the choice among them
/// to the bytes).
pub fn dec_two_ctx<S: Src, const P: u8, const N: usize>(s: &mut S) {
    let c1: Cfg<2, 2> = Cfg::draw(s);
    let c2: Cfg<1, 1> = Cfg::draw(s);
    let a: [u8; N] = s.arr();
    let n = s.usize();
    s.assume(n <= N);
    let b = &a[..n];
    s.assume(!kf::dec_any(b));
    let x1 = c1.build();
    let x2 = c2.build();
    let r1 = x1.decode_packet(b);
    let r2 = x2.decode_packet(b);
    reached!(s, "hist: two contexts decoded the same bytes");
    match (&r1, &r2) {
        (Ok((t1, p1)), Ok((t2, p2))) => {
            chk!(s, P, C09, t1 == t2 && p1.len() == p2.len() && core::ptr::eq(p1.as_ptr(), p2.as_ptr()), "two contexts accept the same bytes with the same type and payload slice");
            cov!(s, P, C09, c1.addr != c2.addr && c1.resp_eid != c2.resp_eid, "hist: differing contexts accept the same packet");
        }
        (Err(e1), Err(e2)) => {
            chk!(s, P, C09, e1 == e2, "two contexts reject the same bytes with the same error");
            cov!(s, P, C09, n >= 12 && c1.addr != c2.addr, "hist: differing contexts reject the same packet");
        }
        _ => {
            chk!(s, P, C09, false, "two contexts agree on accepting or rejecting the same bytes");
        }
    }
}
