//! C19 — wire code points ↔ enumeration values.
use crate::src::Src;
use crate::{chk, cov};
use libmctp::base_packet::MessageType;
use libmctp::control_packet::{CommandCode, CompletionCode};

pub fn command<S: Src, const P: u8>(s: &mut S) {
    let b = s.u8();
    let v = CommandCode::from(b);
    let n = v as u8;
    chk!(s, P, C19, n == if b <= 0x14 { b } else { 0xFF }, "CommandCode::from(b) as u8 == b for b<=0x14, else Unknown(0xFF)");
    // DSP0236 Table 12 names ↔ code points
    let named = match b {
        0x00 => v == CommandCode::Reserved,
        0x01 => v == CommandCode::SetEndpointID,
        0x02 => v == CommandCode::GetEndpointID,
        0x03 => v == CommandCode::GetEndpointUUID,
        0x04 => v == CommandCode::GetMCTPVersionSupport,
        0x05 => v == CommandCode::GetMessageTypeSupport,
        0x06 => v == CommandCode::GetVendorDefinedMessageSupport,
        0x07 => v == CommandCode::ResolveEndpointID,
        0x08 => v == CommandCode::AllocateEndpointIDs,
        0x09 => v == CommandCode::RoutingInformationUpdate,
        0x0A => v == CommandCode::GetRoutingTableEntries,
        0x0B => v == CommandCode::PrepareForEndpointDiscovery,
        0x0C => v == CommandCode::EndpointDiscovery,
        0x0D => v == CommandCode::DiscoveryNotify,
        0x0E => v == CommandCode::GetNetworkID,
        0x0F => v == CommandCode::QueryHop,
        0x10 => v == CommandCode::ResolveUUID,
        0x11 => v == CommandCode::QueryRateLimit,
        0x12 => v == CommandCode::RequestTXRateLimit,
        0x13 => v == CommandCode::UpdateRateLimit,
        0x14 => v == CommandCode::QuerySupportedInterfaces,
        _ => v == CommandCode::Unknown,
    };
    chk!(s, P, C19, named, "each command code point maps to the DSP0236 variant of that name");
    cov!(s, P, C19, b == 0x14 && n == 0x14, "cmd: last defined code point");
    cov!(s, P, C19, b == 0x15 && n == 0xFF, "cmd: first undefined code point");
}

pub fn msgtype<S: Src, const P: u8>(s: &mut S) {
    let b = s.u8();
    let v = MessageType::from(b);
    let named = match b {
        0x00 => v == MessageType::MCtpControl,
        0x05 => v == MessageType::SpdmOverMctp,
        0x06 => v == MessageType::SecuredMessages,
        0x7E => v == MessageType::VendorDefinedPCI,
        0x7F => v == MessageType::VendorDefinedIANA,
        _ => v == MessageType::Invalid,
    };
    chk!(s, P, C19, named, "each message type code point maps to its own variant, others to Invalid");
    let n = v as u8;
    let defined = b == 0x00 || b == 0x05 || b == 0x06 || b == 0x7E || b == 0x7F;
    chk!(s, P, C19, n == if defined { b } else { 0xFF }, "MessageType::from(b) as u8 == b for defined b, else Invalid(0xFF)");
    cov!(s, P, C19, b == 0x7F && n == 0x7F, "type: IANA");
    cov!(s, P, C19, b == 0x80 && n == 0xFF, "type: undefined");
}

pub fn completion<S: Src, const P: u8>(s: &mut S) {
    let b = s.u8();
    s.assume(b <= 5);
    let v = CompletionCode::from(b);
    let named = match b {
        0 => v == CompletionCode::Success,
        1 => v == CompletionCode::Error,
        2 => v == CompletionCode::ErrorInvalidData,
        3 => v == CompletionCode::ErrorInvalidLength,
        4 => v == CompletionCode::ErrorNotReady,
        _ => v == CompletionCode::ErrorUnsupportedCmd,
    };
    chk!(s, P, C19, named, "completion codes 0-5 map to their DSP0236 variants");
    let n = v as u8;
    chk!(s, P, C19, n == b, "CompletionCode::from(b) as u8 == b for b<=5");
    cov!(s, P, C19, b == 5, "cc: 5");
}
