//! One `process_packet` call on an arbitrary packet from an arbitrary context
//! state (DESIGN §3.6): C02(b), C10, C11, C12, C13, C14, C15.
use super::ctx::Cfg;
use super::dec::ref_decode;
use crate::kf;
use crate::oracle::ref_crc8;
use crate::src::*;
use crate::{chk, cov, covopt, reached};
use libmctp::base_packet::MessageType;
use libmctp::mctp_traits::SMBusMCTPRequestResponse;

pub const OUT: usize = 64;

fn unchanged(a: &[u8; OUT], b: &[u8; OUT], from: usize) -> bool {
    let mut same = true;
    let mut i = 0;
    while i < OUT {
        if i >= from {
            same &= a[i] == b[i];
        }
        i += 1;
    }
    same
}

/// PEC of a response of concrete length `N`.
fn pec_ok_n<const N: usize>(out: &[u8; OUT]) -> bool {
    out[N - 1] == ref_crc8(&out[..N - 1])
}

/// `L`-byte arbitrary packet; context with up to `NT` message types and up to
/// `NV` vendor sets (valid configuration: >= 1 set, formats PCI/IANA);
/// `EXACT`: the type list has exactly `NT` entries.
pub fn one<S: Src, const P: u8, const L: usize, const NT: usize, const NV: usize, const EXACT: bool>(s: &mut S) {
    let cfg: Cfg<NT, NV> = Cfg::draw(s);
    s.assume(cfg.nv >= 1);
    if EXACT {
        s.assume(cfg.nt == NT);
    }
    let mut i = 0;
    while i < NV {
        s.assume(cfg.vend[i].format <= 1);
        i += 1;
    }
    let b: [u8; L] = s.arr();
    let prior: [u8; OUT] = s.arr();
    let rd = ref_decode(&b);
    // open findings: inputs on which decode/process are known to panic
    s.assume(!kf::dec_any(&b));
    s.assume(!kf::proc_any(&b, rd.pec_ok, cfg.nv));
    let ctx = cfg.build();
    // the pre-state as the context itself reports it (an implementation may keep one shared EID)
    let req0 = ctx.get_request().get_eid();
    let resp0 = ctx.get_response().get_eid();
    let sel0 = ctx.verif_get_vendor_id_selector();
    let mut out = prior;
    // C12 / C15: the response buffer may be shorter than 64 bytes, down to an exact fit (a buffer
    // that is too short makes the library panic, which only cuts the path on these harnesses)
    let cap = if P == C12 || P == C15 {
        let c = s.usize();
        s.assume(c >= 13 && c <= OUT);
        c
    } else {
        OUT
    };
    let r = ctx.process_packet(&b, &mut out[..cap]);
    reached!(s, "proc: process_packet returned");
    let req_eid = ctx.get_request().get_eid();
    let resp_eid = ctx.get_response().get_eid();
    let answered = match &r {
        Ok((_, Some(n))) => Some(*n),
        _ => None,
    };
    let cmd = if L >= 11 { b[10] } else { 0xFF };
    // "accepted control request" according to the reference decoder
    let acc_req = rd.accept && rd.is_control && rd.is_request;

    // ---------------------------------------------------------------- C02 (b)
    if P == C02 {
        if !rd.pec_ok {
            chk!(s, P, C02, r.is_err(), "input whose last byte is not the PEC of the rest is not processed successfully");
            chk!(s, P, C02, unchanged(&out, &prior, 0), "bad PEC: no response byte is written");
            chk!(s, P, C02, req_eid == req0 && resp_eid == resp0, "bad PEC: the EID is unchanged");
            chk!(s, P, C02, ctx.verif_get_vendor_id_selector() == sel0, "bad PEC: the vendor selector state is unchanged (so no later output changes)");
            cov!(s, P, C02, rd.hdr_ok && rd.is_control && rd.is_request && r.is_err(), "proc: control request with a corrupted PEC rejected");
            covopt!(s, P, C02, rd.hdr_ok && rd.is_control && rd.is_request && cmd == 0x01 && L == 14, "proc: Set Endpoint ID request with a corrupted PEC");
        } else {
            cov!(s, P, C02, answered.is_some(), "proc: a request with a good PEC is answered");
        }
    }
    // ---------------------------------------------------------------- C03 / C04: the response is an encoded packet too
    if P == C03 || P == C04 {
        if let Some(n) = answered {
            let pec = match n {
                14 => pec_ok_n::<14>(&out),
                15 => pec_ok_n::<15>(&out),
                16 => pec_ok_n::<16>(&out),
                17 => pec_ok_n::<17>(&out),
                18 => pec_ok_n::<18>(&out),
                19 => pec_ok_n::<19>(&out),
                21 => pec_ok_n::<21>(&out),
                29 => pec_ok_n::<29>(&out),
                _ => n >= 2 && n <= OUT && out[n - 1] == ref_crc8(&out[..n - 1]),
            };
            chk!(s, P, C03, pec, "the response written by process_packet ends with the PEC of all preceding bytes");
            chk!(s, P, C04, n >= 13 && n <= OUT && out[1] == 0x0F && out[2] as usize == n - 4, "response: command code 0x0F, byte count = reported length - 4");
            chk!(s, P, C04, out[0] & 1 == 0 && out[3] & 1 == 1 && (cfg.addr >= 0x80 || out[3] >> 1 == cfg.addr), "response: write bit clear; source address byte = own 7-bit address << 1 | 1");
            if P == C04 {
                let k = s.usize();
                s.assume(k >= 3 && k <= OUT);
                chk!(s, P, C04, k > n || ctx.get_length(&out[..k]) == Ok(n), "get_length on every prefix of the response returns the reported length");
            }
            cov!(s, P, C03, (b[9] & 0x1F) != 0, "proc: request with a non-zero instance ID answered");
            cov!(s, P, C04, n >= 16, "proc: response probed");
        }
    }
    // ---------------------------------------------------------------- C05: the processor's responses carry the same transport header
    if P == C05 {
        if let Some(n) = answered {
            chk!(s, P, C05, n >= 13 && out[4] == 0x01, "process response: reserved bits zero, header version 1");
            chk!(s, P, C05, out[5] == b[6] && out[6] == cfg.addr, "process response: destination EID = the requester's source EID, source EID = own address");
            chk!(s, P, C05, out[7] & 0xF0 == 0xC0, "process response: start-of-message 1, end-of-message 1, packet sequence 0");
            chk!(s, P, C05, out[8] == 0x00, "process response: integrity-check bit clear, message type control");
            cov!(s, P, C05, (b[7] & 0x30) != 0 && (b[7] & 0x07) != 0, "proc: request with a non-zero packet sequence and tag answered");
        }
    }
    // ---------------------------------------------------------------- C07: responses written by the processor are encoded responses too
    if P == C07 {
        if let Some(n) = answered {
            chk!(s, P, C07, n >= 13 && n <= OUT && out[8] == 0x00 && out[9] & 0xE0 == 0x00, "process response: control message with the request, datagram and reserved bits clear");
            chk!(s, P, C07, out[10] == cmd && out[11] <= 5, "process response: command code of the command being answered, then a completion code");
            if out[11] == 0 && cmd == 4 {
                chk!(s, P, C07, n == 18 && out[12] == 1 && out[13] == 0xF1 && out[14] == 0xF3 && out[15] == 0xF1 && out[16] == 0x00, "process response: Get MCTP Version Support carries one entry F1 F3 F1 00");
            }
            if out[11] == 0 && cmd == 2 {
                chk!(s, P, C07, n == 16 && (out[12] == resp0 || out[12] == req0), "process response: Get Endpoint ID carries the current EID");
            }
            if out[11] == 0 && cmd == 1 {
                chk!(s, P, C07, n == 16 && out[12] & 0xCC == 0 && out[13] == resp_eid && out[14] == 0, "process response: Set Endpoint ID carries status, the current EID and pool size 0");
            }
            cov!(s, P, C07, (b[9] & 0x60) != 0, "proc: request with the datagram or reserved bit set answered");
        }
    }
    // ---------------------------------------------------------------- C10
    if P == C10 {
        cov!(s, P, C10, answered.is_some(), "proc: a request was answered");
        cov!(s, P, C10, r.is_err(), "proc: an input was rejected");
    }
    // ---------------------------------------------------------------- C11
    if P == C11 {
        let d = ctx.decode_packet(&b);
        match (&d, &r) {
            (Ok((t, p)), Ok(((t2, p2), o))) => {
                chk!(s, P, C11, t == t2, "processing reports the message type decoding reports");
                chk!(s, P, C11, p.len() == p2.len() && core::ptr::eq(p.as_ptr(), p2.as_ptr()), "processing reports the payload decoding reports");
                let is_req = *t == MessageType::MCtpControl && (b[9] >> 7) == 1;
                chk!(s, P, C11, o.is_some() == is_req, "a response is reported exactly for accepted control requests");
                covopt!(s, P, C11, *t == MessageType::SpdmOverMctp, "proc: SPDM message passed through");
                covopt!(s, P, C11, *t == MessageType::VendorDefinedIANA, "proc: IANA message passed through");
                covopt!(s, P, C11, *t == MessageType::MCtpControl && !is_req, "proc: control response passed through");
                covopt!(s, P, C11, is_req, "proc: control request answered");
            }
            (Err(e), Err(e2)) => {
                chk!(s, P, C11, e == e2, "processing reports the error decoding reports");
                cov!(s, P, C11, true, "proc: rejected input");
            }
            _ => {
                chk!(s, P, C11, false, "processing and decoding agree on accept / reject");
            }
        }
        match answered {
            None => {
                chk!(s, P, C11, unchanged(&out, &prior, 0), "no response reported: every byte of the response buffer is unchanged");
            }
            Some(n) => {
                chk!(s, P, C11, n <= OUT && unchanged(&out, &prior, n), "bytes beyond the reported response length are unchanged");
            }
        }
    }
    // ---------------------------------------------------------------- C12
    if P == C12 {
        // precondition of the property
        let answerable = acc_req && cmd >= 1 && cmd <= 6;
        if answerable && b[6] == b[3] >> 1 && !(cmd == 1 && (b[12] == 0x00 || b[12] == 0xFF)) {
            match answered {
                None => {
                    chk!(s, P, C12, false, "an accepted answerable request gets a response");
                }
                Some(n) => {
                    chk!(s, P, C12, n >= 13 && n <= OUT && out[2] as usize == n - 4, "response: reported length = byte count + 4");
                    chk!(s, P, C12, out[0] == b[3] & 0xFE && out[1] == 0x0F, "response: destination address = request's source address, write bit clear; command code 0x0F");
                    chk!(s, P, C12, out[3] & 1 == 1 && (cfg.addr >= 0x80 || out[3] >> 1 == cfg.addr), "response: source address = responder's own (7-bit) address, bit 0 set");
                    chk!(s, P, C12, out[4] == 0x01 && out[5] == b[6] && out[6] == cfg.addr, "response: header version 1, destination EID = request's source EID, source EID = own address");
                    chk!(s, P, C12, out[7] & 0xF0 == 0xC0, "response: single packet (SOM, EOM, sequence 0)");
                    chk!(s, P, C12, out[8] == 0x00, "response: control message, IC clear");
                    chk!(s, P, C12, out[9] & 0xE0 == 0x00, "response: request, datagram and reserved bits clear");
                    chk!(s, P, C12, out[10] == cmd, "response: same command code as the request");
                    chk!(s, P, C12, out[11] <= 5, "response: a completion code follows");
                    if !(cfg!(feature = "kf_c12_instance_id") && (b[9] & 0x1F) != 0) {
                        chk!(s, P, C12, out[9] & 0x1F == b[9] & 0x1F, "response: same instance ID as the request");
                    }
                    // PEC, by concrete length per command
                    let pec = match n {
                        16 => pec_ok_n::<16>(&out),
                        18 => pec_ok_n::<18>(&out),
                        19 => pec_ok_n::<19>(&out),
                        21 => pec_ok_n::<21>(&out),
                        29 => pec_ok_n::<29>(&out),
                        14 => pec_ok_n::<14>(&out),
                        15 => pec_ok_n::<15>(&out),
                        17 => pec_ok_n::<17>(&out),
                        _ => n <= OUT && out[n - 1] == ref_crc8(&out[..n - 1]),
                    };
                    chk!(s, P, C12, pec, "response: last byte is the PEC of the response");
                    covopt!(s, P, C12, cmd == 1, "proc: Set Endpoint ID answered");
                    covopt!(s, P, C12, cap == n, "proc: response written into an exact-fit buffer");
                    covopt!(s, P, C12, cmd == 3 && n == 29, "proc: Get Endpoint UUID answered");
                    covopt!(s, P, C12, cmd == 6, "proc: Get Vendor Defined Message Support answered");
                    covopt!(s, P, C12, cmd == 5 && (b[9] & 0x1F) == 0, "proc: Get Message Type Support answered");
                }
            }
        }
    }
    // ---------------------------------------------------------------- C13
    if P == C13 {
        let assign = acc_req && cmd == 1 && L == 14 && (b[11] == 0 || b[11] == 1);
        if assign {
            s.assume(b[12] >= 0x01 && b[12] <= 0xFE);
            chk!(s, P, C13, req_eid == b[12] && resp_eid == b[12], "accepted Set/Force assignment: both halves report the assigned EID");
            chk!(s, P, C13, answered == Some(16) && out[11] == 0x00 && (out[12] >> 4) & 3 == 0 && out[13] == b[12], "accepted assignment is answered with Success, status accepted and the new EID");
            covopt!(s, P, C13, b[12] != resp0 && b[11] == 1, "proc: Force EID to a new value");
        } else {
            chk!(s, P, C13, req_eid == req0 && resp_eid == resp0, "anything but an accepted Set/Force assignment leaves the EID unchanged");
            if acc_req && cmd == 1 && L == 14 && b[11] == 3 {
                chk!(s, P, C13, answered == Some(16) && out[11] == 0x02, "Set Discovered Flag is answered with the invalid-data completion code");
                covopt!(s, P, C13, true, "proc: Set Discovered Flag");
            }
            if acc_req && cmd == 2 {
                chk!(s, P, C13, answered == Some(16) && out[11] == 0x00 && (out[12] == resp0 || out[12] == req0), "Get Endpoint ID reports the current EID");
                covopt!(s, P, C13, resp0 == 0x42 && req0 == 0x42, "proc: Get Endpoint ID with EID 0x42");
            }
            covopt!(s, P, C13, rd.accept && !rd.is_control, "proc: vendor/SPDM message leaves the EID alone");
            covopt!(s, P, C13, rd.hdr_ok && rd.is_control && rd.is_request && cmd == 1 && !rd.pec_ok, "proc: corrupted Set Endpoint ID leaves the EID alone");
        }
    }
    // ---------------------------------------------------------------- C14
    if P == C14 {
        if acc_req && cmd == 6 && L == 13 && (b[11] as usize) < cfg.nv {
            let i = b[11] as usize;
            let v = &cfg.vend[i];
            let last = i == cfg.nv - 1;
            let next = if last { 0xFF } else { b[11] + 1 };
            let want_len = if v.format == 0 { 19 } else { 21 };
            chk!(s, P, C14, answered == Some(want_len) && out[11] == 0x00, "selector below n is answered with Success");
            chk!(s, P, C14, out[12] == next, "next selector is i+1, or 0xFF exactly for the last set");
            if v.format == 0 {
                let ok = out[13] == 0 && out[14] == (v.data >> 8) as u8 && out[15] == v.data as u8
                    && out[16] == (v.numeric_value >> 8) as u8 && out[17] == v.numeric_value as u8;
                chk!(s, P, C14, ok, "PCI set: format 0, 16-bit ID and 16-bit numeric value, most significant byte first");
                covopt!(s, P, C14, i > 0 && last, "proc: last PCI set of several");
            } else {
                let ok = out[13] == 1 && out[14] == (v.data >> 24) as u8 && out[15] == (v.data >> 16) as u8
                    && out[16] == (v.data >> 8) as u8 && out[17] == v.data as u8
                    && out[18] == (v.numeric_value >> 8) as u8 && out[19] == v.numeric_value as u8;
                chk!(s, P, C14, ok, "IANA set: format 1, 32-bit number and 16-bit numeric value, most significant byte first");
                covopt!(s, P, C14, !last, "proc: IANA set that is not the last");
            }
            cov!(s, P, C14, true, "proc: vendor set enumerated");
        }
    }
    // ---------------------------------------------------------------- C15
    if P == C15 {
        if acc_req && cmd == 5 {
            let mut ok = answered == Some(14 + cfg.nt) && out[11] == 0 && out[12] as usize == cfg.nt;
            let mut i = 0;
            while i < NT {
                if i < cfg.nt {
                    ok &= out[13 + i] == cfg.types[i];
                }
                i += 1;
            }
            chk!(s, P, C15, ok, "Get Message Type Support: count and the configured list, in order");
            covopt!(s, P, C15, cfg.nt == NT, "proc: full-length type list reported");
            covopt!(s, P, C15, cap == 14 + cfg.nt, "proc: type list written into an exact-fit response buffer");
        }
        if acc_req && cmd == 3 {
            let u = cfg.expect_uuid();
            let mut ok = answered == Some(29) && out[11] == 0;
            let mut i = 0;
            while i < 16 {
                ok &= out[12 + i] == u[i];
                i += 1;
            }
            chk!(s, P, C15, ok, "Get Endpoint UUID: the 16 bytes last installed (all zero before any)");
            covopt!(s, P, C15, !cfg.set_uuid, "proc: UUID never installed");
            covopt!(s, P, C15, cfg.set_uuid && u[0] == 0xAB, "proc: installed UUID reported");
        }
        if acc_req && cmd == 4 && L == 13 {
            let ok = answered == Some(18) && out[11] == 0 && out[12] == 1 && out[13] == 0xF1 && out[14] == 0xF3 && out[15] == 0xF1 && out[16] == 0x00;
            chk!(s, P, C15, ok, "Get MCTP Version Support: one entry, 1.3.1 (F1 F3 F1 00)");
            covopt!(s, P, C15, true, "proc: version reported");
        }
    }
}

/// Inputs too short to be a control request: `N`-byte arbitrary array (N <= 11), length `K` if
/// `K <= N`, otherwise symbolic 0..=N (costs ~10 GB in the C11 instance: thorough tier), handed to `process_packet` directly — the processor must treat them exactly as the
/// decoder does (C10 no panic, C11 same verdict / no response / buffer untouched, C02 and C13
/// nothing changes). Vendor / SPDM messages of 10 and 11 bytes are accepted and passed through.
pub fn short<S: Src, const P: u8, const N: usize, const K: usize>(s: &mut S) {
    let cfg: Cfg<2, 2> = Cfg::draw(s);
    s.assume(cfg.nv >= 1);
    s.assume(cfg.vend[0].format <= 1 && cfg.vend[1].format <= 1);
    let a: [u8; N] = s.arr();
    let n = if K <= N {
        K
    } else {
        let n = s.usize();
        s.assume(n <= N);
        n
    };
    let b = &a[..n];
    let prior: [u8; OUT] = s.arr();
    let rd = ref_decode(b);
    s.assume(!kf::dec_any(b));
    let ctx = cfg.build();
    let req0 = ctx.get_request().get_eid();
    let resp0 = ctx.get_response().get_eid();
    let sel0 = ctx.verif_get_vendor_id_selector();
    let mut out = prior;
    let r = ctx.process_packet(b, &mut out);
    reached!(s, "proc-short: process_packet returned");
    let same_state = ctx.get_request().get_eid() == req0 && ctx.get_response().get_eid() == resp0
        && ctx.verif_get_vendor_id_selector() == sel0;
    if P == C10 {
        covopt!(s, P, C10, r.is_err() && n == 0, "proc-short: empty input rejected");
        covopt!(s, P, C10, r.is_err() && n == 11 && rd.hdr_ok && rd.typ == 0, "proc-short: truncated control packet rejected");
        covopt!(s, P, C10, r.is_ok(), "proc-short: short vendor/SPDM message passed through");
        cov!(s, P, C10, r.is_err(), "proc-short: short input rejected");
    }
    if P == C02 {
        if n < 2 || !rd.pec_ok {
            chk!(s, P, C02, r.is_err(), "short input whose last byte is not the PEC of the rest is not processed successfully");
            chk!(s, P, C02, unchanged(&out, &prior, 0) && same_state, "short input with a bad PEC: no response byte, EID and selector unchanged");
            covopt!(s, P, C02, n == 10 && rd.hdr_ok, "proc-short: 10-byte message with a corrupted PEC rejected");
        }
    }
    if P == C11 {
        let d = ctx.decode_packet(b);
        match (&d, &r) {
            (Ok((t, p)), Ok(((t2, p2), o))) => {
                chk!(s, P, C11, t == t2 && p.len() == p2.len() && core::ptr::eq(p.as_ptr(), p2.as_ptr()), "short input: processing reports the type and payload decoding reports");
                chk!(s, P, C11, o.is_none(), "short input: no response is reported (it cannot be a control request)");
                covopt!(s, P, C11, *t == MessageType::VendorDefinedPCI && n == 10, "proc-short: 10-byte PCI vendor message passed through");
            }
            (Err(e), Err(e2)) => {
                chk!(s, P, C11, e == e2, "short input: processing reports the error decoding reports");
                covopt!(s, P, C11, n < 10, "proc-short: input shorter than the headers rejected");
                cov!(s, P, C11, true, "proc-short: rejected like the decoder rejects it");
            }
            _ => {
                chk!(s, P, C11, false, "short input: processing and decoding agree on accept / reject");
            }
        }
        chk!(s, P, C11, unchanged(&out, &prior, 0), "short input: every byte of the response buffer is unchanged");
    }
    if P == C13 {
        chk!(s, P, C13, same_state, "short input leaves the EID of both halves unchanged");
        covopt!(s, P, C13, n == 11 && rd.hdr_ok && rd.typ == 0 && a[10] == 0x01, "proc-short: truncated Set Endpoint ID");
    }
}

/// Maximum-size inputs (C10 only): `L` arbitrary bytes (L up to the SMBus maximum 259) straight
/// into `process_packet`. The general harness `one` does not finish at this size (17 GB / 50 min),
/// so this one carries nothing but the call: no reference decoder, no second CRC circuit — the
/// open finding classes are excluded by their header bytes alone (without the "PEC is correct"
/// conjunct, i.e. a slightly larger exclusion), and the only obligation is "returns".
pub fn long<S: Src, const P: u8, const L: usize>(s: &mut S) {
    let cfg: Cfg<1, 1> = Cfg::draw(s);
    s.assume(cfg.nv == 1 && cfg.vend[0].format <= 1);
    let b: [u8; L] = s.arr();
    s.assume(!kf::dec_any(&b));
    s.assume(!kf::proc_any(&b, true, cfg.nv));
    let ctx = cfg.build();
    let mut out = [0u8; OUT];
    let r = ctx.process_packet(&b, &mut out);
    reached!(s, "proc-long: process_packet returned");
    cov!(s, P, C10, r.is_err(), "proc-long: a maximum-size input was rejected");
    covopt!(s, P, C10, matches!(r, Ok((_, Some(_)))), "proc-long: a maximum-size request was answered");
}

/// Witness of an open process_packet finding `K`.
pub fn witness<S: Src, const K: u8, const L: usize>(s: &mut S) {
    let cfg: Cfg<1, 2> = Cfg::draw(s);
    s.assume(cfg.nv >= 1);
    s.assume(cfg.vend[0].format <= 1 && cfg.vend[1].format <= 1);
    let b: [u8; L] = s.arr();
    let mut out: [u8; OUT] = s.arr();
    let pec_ok = b[L - 1] == ref_crc8(&b[..L - 1]);
    s.assume(match K {
        0 => kf::proc_cmd_reserved_class(&b, pec_ok),
        1 => kf::proc_seteid_op_class(&b, pec_ok),
        2 => kf::proc_vendor_selector_class(&b, pec_ok, cfg.nv),
        _ => kf::proc_cmd_unimpl_class(&b, pec_ok),
    });
    let ctx = cfg.build();
    let _ = ctx.process_packet(&b, &mut out);
}

/// Witness of the C12 instance-ID finding: requests with a non-zero instance ID.
pub fn witness_instance<S: Src, const L: usize>(s: &mut S) {
    let cfg: Cfg<1, 1> = Cfg::draw(s);
    s.assume(cfg.nv == 1 && cfg.vend[0].format <= 1);
    let b: [u8; L] = s.arr();
    let mut out: [u8; OUT] = s.arr();
    let rd = ref_decode(&b);
    s.assume(rd.accept && rd.is_control && rd.is_request && b[10] >= 2 && b[10] <= 5 && (b[9] & 0x1F) != 0);
    let ctx = cfg.build();
    let r = ctx.process_packet(&b, &mut out);
    if let Ok((_, Some(_))) = r {
        chk!(s, C12, C12, out[9] & 0x1F == b[9] & 0x1F, "response: same instance ID as the request");
    }
}
