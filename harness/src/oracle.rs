//! Reference models written from the property text / DSP0236 / DSP0237 — not
//! from the library's code. Kept short on purpose: they are part of the
//! trusted base.

/// SMBus PEC: CRC-8, polynomial x^8+x^2+x+1 (0x07), init 0, no reflection, no
/// final xor. Bit-serial form: message bits enter MSB first at the feedback tap.
pub fn ref_crc8(data: &[u8]) -> u8 {
    let mut r: u8 = 0;
    let mut i = 0;
    while i < data.len() {
        let mut bits = data[i];
        let mut k = 0;
        while k < 8 {
            let fb = ((r >> 7) ^ (bits >> 7)) & 1;
            r <<= 1;
            bits <<= 1;
            if fb == 1 {
                r ^= 0x07;
            }
            k += 1;
        }
        i += 1;
    }
    r
}

/// Message types the library supports (DSP0239 code points).
pub fn supported_type(t: u8) -> bool {
    t == 0x00 || t == 0x05 || t == 0x06 || t == 0x7E || t == 0x7F
}

/// Fixed request data length of a control command, if it has one (C09 text).
pub fn req_fixed_len(cmd: u8) -> Option<usize> {
    match cmd {
        0x01 => Some(2),
        0x04 => Some(1),
        0x06 => Some(1),
        0x07 => Some(1),
        0x08 => Some(3),
        _ => None,
    }
}

/// Fixed response data length (after the completion code), if any (C09 text).
/// Commands 0x02, 0x08, 0x09 are outside the C09 claim.
pub fn resp_fixed_len(cmd: u8) -> Option<usize> {
    match cmd {
        0x01 => Some(3),
        0x03 => Some(16),
        0x04 => Some(5),
        _ => None,
    }
}
