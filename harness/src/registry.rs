//! The list of harnesses. Name = <property>__<tier>__<what>; tier q = quick
//! (also run by thorough), t = thorough only, w = known-finding witness.
use crate::bodies::*;
use crate::src::*;

crate::harnesses! { proofs, REGISTRY;
    // ---- C19
    c19__q__command,        1, own, conv::command::<_, C19>;
    c19__q__msgtype,        1, own, conv::msgtype::<_, C19>;
    c19__q__completion,     1, own, conv::completion::<_, C19>;
    // ---- C18
    c18__q__smbus_header,   40, own, views::smbus_header::<_, C18>;
    c18__q__transport_hdr,  40, own, views::transport_header::<_, C18>;
    c18__q__body_header,    40, own, views::body_header::<_, C18>;
    c18__q__control_header, 40, own, views::control_header::<_, C18>;
    c18__q__routing_entry,  40, own, views::routing_entry::<_, C18>;
    c18__q__vendor_headers, 40, own, views::vendor_headers::<_, C18>;
    // ---- C17
    c17__q__probe259,       20, own, getlen::probe::<_, C17, 259>;
}
