//! Bounded-model-checking harnesses for libmctp (see /verif/DESIGN.md).
#![allow(non_snake_case)]
pub mod src;
pub mod oracle;
pub mod kf;
pub mod bodies;
pub mod registry;

#[cfg(not(kani))]
pub struct Entry {
    pub name: &'static str,
    pub unwind: u32,
    pub owns_panics: bool,
    pub f: fn(&mut src::ReplaySrc),
}

#[cfg(not(kani))]
pub const fn own_flag(s: &str) -> bool {
    // "own" | "ign"
    s.as_bytes()[0] == b'o'
}
