//! Input source abstraction: the same harness body runs under Kani (every
//! draw is a fresh SAT variable) and natively (every draw pops the next value
//! recorded from a solver counterexample, or supplied by a sanity vector).

pub trait Src {
    fn u8(&mut self) -> u8;
    fn u16(&mut self) -> u16;
    fn u32(&mut self) -> u32;
    fn usize(&mut self) -> usize;
    fn bool(&mut self) -> bool;
    fn arr<const N: usize>(&mut self) -> [u8; N];
    /// Restrict the explored inputs; natively an unmet assumption aborts the replay.
    fn assume(&mut self, c: bool);
    /// Native only: a tagged assertion failed.
    fn fail(&mut self, msg: &'static str);
    /// Native only: a cover witness was hit.
    fn hit(&mut self, name: &'static str);
}

#[cfg(kani)]
pub struct KaniSrc;

/// Every draw is followed by an always-true assumption that mentions the
/// drawn value. It costs nothing to the solver but keeps the input inside the
/// cone of influence of every later assertion, so CBMC's formula slicer keeps
/// it and a (sliced, cheap) counterexample trace lists *all* draws in order.
#[cfg(kani)]
macro_rules! keep {
    ($v:expr) => {
        kani::assume(($v | 1) != 0)
    };
}

#[cfg(kani)]
impl Src for KaniSrc {
    #[inline(always)]
    fn u8(&mut self) -> u8 {
        let v: u8 = kani::any();
        keep!(v);
        v
    }
    #[inline(always)]
    fn u16(&mut self) -> u16 {
        let v: u16 = kani::any();
        keep!(v);
        v
    }
    #[inline(always)]
    fn u32(&mut self) -> u32 {
        let v: u32 = kani::any();
        keep!(v);
        v
    }
    #[inline(always)]
    fn usize(&mut self) -> usize {
        let v: usize = kani::any();
        keep!(v);
        v
    }
    #[inline(always)]
    fn bool(&mut self) -> bool {
        let v: bool = kani::any();
        keep!(v as u8);
        v
    }
    #[inline(always)]
    fn arr<const N: usize>(&mut self) -> [u8; N] {
        let a: [u8; N] = kani::any();
        let mut acc = 0u8;
        let mut i = 0;
        while i < N {
            acc |= a[i];
            i += 1;
        }
        keep!(acc);
        a
    }
    #[inline(always)]
    fn assume(&mut self, c: bool) {
        kani::assume(c)
    }
    #[inline(always)]
    fn fail(&mut self, _msg: &'static str) {}
    #[inline(always)]
    fn hit(&mut self, _name: &'static str) {}
}

/// Native interpreter of a recorded input list (one byte vector per draw, in
/// draw order, little endian — the format of Kani's concrete playback).
pub struct ReplaySrc {
    pub vals: Vec<Vec<u8>>,
    pub pos: usize,
    pub fails: Vec<&'static str>,
    pub hits: Vec<&'static str>,
    /// draws beyond the recording return zero (and are counted) ...
    pub underflow: usize,
    /// ... or pseudo-random bytes when a seed is set (machinery self-test only)
    pub rng: u64,
}

pub struct AssumeViolated;

impl ReplaySrc {
    pub fn new(vals: Vec<Vec<u8>>) -> Self {
        ReplaySrc { vals, pos: 0, fails: vec![], hits: vec![], underflow: 0, rng: 0 }
    }
    fn next(&mut self, n: usize) -> Vec<u8> {
        if self.pos < self.vals.len() {
            let v = self.vals[self.pos].clone();
            self.pos += 1;
            if v.len() != n {
                panic!("REPLAY-MISMATCH: draw {} wants {} bytes, recording has {}", self.pos - 1, n, v.len());
            }
            v
        } else {
            self.underflow += 1;
            if self.rng == 0 {
                return vec![0; n];
            }
            let mut v = vec![0u8; n];
            for x in v.iter_mut() {
                self.rng ^= self.rng << 13;
                self.rng ^= self.rng >> 7;
                self.rng ^= self.rng << 17;
                *x = (self.rng >> 24) as u8;
            }
            if n == 1 && (self.rng >> 40) & 1 == 1 {
                // enum indices, small counts: small values half of the time
                v[0] %= 6;
            }
            if n == 8 {
                // sizes / lengths / offsets: keep them small so that range assumptions are met often
                let small = (v[0] as usize | ((v[1] as usize) << 8)) % if (self.rng >> 41) & 1 == 1 { 9 } else { 300 };
                v = (small as u64).to_le_bytes().to_vec();
            }
            v
        }
    }
}

impl Src for ReplaySrc {
    fn u8(&mut self) -> u8 {
        self.next(1)[0]
    }
    fn u16(&mut self) -> u16 {
        let v = self.next(2);
        u16::from_le_bytes([v[0], v[1]])
    }
    fn u32(&mut self) -> u32 {
        let v = self.next(4);
        u32::from_le_bytes([v[0], v[1], v[2], v[3]])
    }
    fn usize(&mut self) -> usize {
        let v = self.next(8);
        let mut a = [0u8; 8];
        a.copy_from_slice(&v);
        u64::from_le_bytes(a) as usize
    }
    fn bool(&mut self) -> bool {
        self.next(1)[0] != 0
    }
    fn arr<const N: usize>(&mut self) -> [u8; N] {
        // Kani draws a byte array element by element
        let mut a = [0u8; N];
        if N > 1 && self.pos < self.vals.len() && self.vals[self.pos].len() == N {
            a.copy_from_slice(&self.next(N));
            return a;
        }
        for x in a.iter_mut() {
            *x = self.next(1)[0];
        }
        a
    }
    fn assume(&mut self, c: bool) {
        if !c {
            std::panic::panic_any(AssumeViolated);
        }
    }
    fn fail(&mut self, msg: &'static str) {
        self.fails.push(msg);
    }
    fn hit(&mut self, name: &'static str) {
        if !self.hits.contains(&name) {
            self.hits.push(name);
        }
    }
}

/// Property tags (const-generic parameter `P` of every body).
pub const C01: u8 = 1;
pub const C02: u8 = 2;
pub const C03: u8 = 3;
pub const C04: u8 = 4;
pub const C05: u8 = 5;
pub const C06: u8 = 6;
pub const C07: u8 = 7;
pub const C08: u8 = 8;
pub const C09: u8 = 9;
pub const C10: u8 = 10;
pub const C11: u8 = 11;
pub const C12: u8 = 12;
pub const C13: u8 = 13;
pub const C14: u8 = 14;
pub const C15: u8 = 15;
pub const C16: u8 = 16;
pub const C17: u8 = 17;
pub const C18: u8 = 18;
pub const C19: u8 = 19;

/// Tagged assertion: present in the formula only when the harness is
/// instantiated for property `$t`.
#[macro_export]
macro_rules! chk {
    ($s:expr, $p:expr, $t:ident, $c:expr, $m:literal) => {
        if $p == $crate::src::$t {
            #[cfg(kani)]
            {
                let _ = &$s;
                kani::assert($c, concat!("[", stringify!($t), "] ", $m));
            }
            #[cfg(not(kani))]
            {
                if !($c) {
                    $crate::src::Src::fail($s, concat!("[", stringify!($t), "] ", $m));
                }
            }
        }
    };
}

/// Vacuity witness of property `$t`: must be SATISFIED under Kani when the
/// harness is instantiated for `$t` (for other tags it is dead code and the
/// driver ignores it).
#[macro_export]
macro_rules! cov {
    ($s:expr, $p:expr, $t:ident, $c:expr, $m:literal) => {{
        if $p == $crate::src::$t {
            #[cfg(all(kani, not(feature = "nocov")))]
            {
                let _ = &$s;
                kani::cover($c, concat!("[", stringify!($t), "] ", $m));
            }
            #[cfg(all(kani, feature = "nocov"))]
            {
                let _ = &$s;
            }
            #[cfg(not(kani))]
            {
                if $c {
                    $crate::src::Src::hit($s, concat!("[", stringify!($t), "] ", $m));
                }
            }
        }
    }};
}

/// Optional witness: reachable only in some instances of a generic body
/// (e.g. the refusal branch of an encoder). Reported when satisfied, never required.
#[macro_export]
macro_rules! covopt {
    ($s:expr, $p:expr, $t:ident, $c:expr, $m:literal) => {{
        if $p == $crate::src::$t {
            #[cfg(all(kani, not(feature = "nocov")))]
            {
                let _ = &$s;
                kani::cover($c, concat!("[", stringify!($t), "?] ", $m));
            }
            #[cfg(any(not(kani), feature = "nocov"))]
            {
                let _ = &$s;
            }
        }
    }};
}

/// Mandatory witness for whatever property the body is instantiated for.
#[macro_export]
macro_rules! reached {
    ($s:expr, $m:literal) => {{
        #[cfg(all(kani, not(feature = "nocov")))]
        {
            let _ = &$s;
            kani::cover(true, concat!("[*] ", $m));
        }
        #[cfg(any(not(kani), feature = "nocov"))]
        {
            let _ = &$s;
        }
    }};
}

/// Register harnesses: a `#[kani::proof]` per entry under Kani, a name → fn
/// table for native replay otherwise. `own` = library panics on this harness
/// are violations of the harness's property; `ign` = they only cut the path.
#[macro_export]
macro_rules! harnesses {
    ($modname:ident, $regname:ident; $( $name:ident, $unwind:literal, $own:ident, $f:expr ;)*) => {
        #[cfg(kani)]
        mod $modname {
            #[allow(unused_imports)]
            use super::*;
            $(
                #[kani::proof]
                #[kani::unwind($unwind)]
                fn $name() {
                    let mut s = $crate::src::KaniSrc;
                    ($f)(&mut s)
                }
            )*
        }
        #[cfg(not(kani))]
        pub static $regname: &[$crate::Entry] = &[
            $( $crate::Entry {
                name: stringify!($name),
                unwind: $unwind,
                owns_panics: $crate::own_flag(stringify!($own)),
                f: $f,
            } ),*
        ];
    };
}
