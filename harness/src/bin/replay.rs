//! Native replay of a recorded input list against the real library build.
//!   replay --list                     → JSON list of harnesses
//!   replay <harness> <values.json>    → runs the body; prints one JSON line
//! values.json: [[b0,b1,..],[..],..] one byte vector per draw.
use mctp_verif::registry::REGISTRY;
use mctp_verif::src::{AssumeViolated, ReplaySrc};
use std::panic;
use std::sync::Mutex;

static PANIC_INFO: Mutex<Option<String>> = Mutex::new(None);

fn esc(s: &str) -> String {
    let mut o = String::new();
    for c in s.chars() {
        match c {
            '"' => o.push_str("\\\""),
            '\\' => o.push_str("\\\\"),
            '\n' => o.push_str("\\n"),
            c if (c as u32) < 0x20 => o.push_str(&format!("\\u{:04x}", c as u32)),
            c => o.push(c),
        }
    }
    o
}

fn parse_vals(txt: &str) -> Vec<Vec<u8>> {
    // minimal parser for [[1,2],[3]]
    let mut out = vec![];
    let mut cur: Option<Vec<u8>> = None;
    let mut num: Option<u32> = None;
    let mut depth = 0;
    for ch in txt.chars() {
        match ch {
            '[' => {
                depth += 1;
                if depth == 2 {
                    cur = Some(vec![]);
                }
            }
            ']' => {
                if let (Some(n), Some(c)) = (num.take(), cur.as_mut()) {
                    c.push(n as u8);
                }
                if depth == 2 {
                    out.push(cur.take().unwrap());
                }
                depth -= 1;
            }
            ',' => {
                if let (Some(n), Some(c)) = (num.take(), cur.as_mut()) {
                    c.push(n as u8);
                }
            }
            d if d.is_ascii_digit() => {
                num = Some(num.unwrap_or(0) * 10 + d.to_digit(10).unwrap());
            }
            _ => {}
        }
    }
    out
}

fn main() {
    let args: Vec<String> = std::env::args().collect();
    if args.len() >= 2 && args[1] == "--list" {
        let mut first = true;
        print!("[");
        for e in REGISTRY.iter() {
            if !first {
                print!(",");
            }
            first = false;
            print!("{{\"name\":\"{}\",\"unwind\":{},\"owns_panics\":{}}}", e.name, e.unwind, e.owns_panics);
        }
        println!("]");
        return;
    }
    if args.len() < 3 {
        eprintln!("usage: replay --list | replay <harness> <values.json>");
        std::process::exit(64);
    }
    let e = match REGISTRY.iter().find(|e| e.name == args[1]) {
        Some(e) => e,
        None => {
            eprintln!("unknown harness {}", args[1]);
            std::process::exit(64);
        }
    };
    let txt = std::fs::read_to_string(&args[2]).expect("read values");
    let vals = parse_vals(&txt);
    panic::set_hook(Box::new(|info| {
        let loc = info.location().map(|l| format!("{}:{}:{}", l.file(), l.line(), l.column())).unwrap_or_default();
        let msg = if let Some(s) = info.payload().downcast_ref::<&str>() {
            s.to_string()
        } else if let Some(s) = info.payload().downcast_ref::<String>() {
            s.clone()
        } else if info.payload().downcast_ref::<AssumeViolated>().is_some() {
            "ASSUME-VIOLATED".to_string()
        } else {
            "<non-string panic>".to_string()
        };
        *PANIC_INFO.lock().unwrap() = Some(format!("{} @ {}", msg, loc));
    }));
    let mut src = ReplaySrc::new(vals);
    let f = e.f;
    let res = panic::catch_unwind(panic::AssertUnwindSafe(|| f(&mut src)));
    let pinfo = PANIC_INFO.lock().unwrap().take();
    let (outcome, detail) = match res {
        Ok(()) => {
            if src.fails.is_empty() {
                ("pass", String::new())
            } else {
                ("assert_fail", src.fails.join(" | "))
            }
        }
        Err(p) => {
            if p.downcast_ref::<AssumeViolated>().is_some() {
                if !src.fails.is_empty() {
                    // a tagged assertion failed BEFORE the run stopped at a later assumption (typically a
                    // draw beyond the recorded counterexample): the earlier failure stands
                    ("assert_fail", src.fails.join(" | "))
                } else {
                    ("assume_violated", String::new())
                }
            } else if pinfo.as_deref().unwrap_or("").starts_with("REPLAY-MISMATCH") {
                ("replay_mismatch", pinfo.clone().unwrap_or_default())
            } else if !src.fails.is_empty() {
                // a tagged assertion failed before the panic
                ("assert_fail", format!("{} | then panic: {}", src.fails.join(" | "), pinfo.clone().unwrap_or_default()))
            } else {
                ("panic", pinfo.clone().unwrap_or_default())
            }
        }
    };
    println!(
        "{{\"harness\":\"{}\",\"outcome\":\"{}\",\"detail\":\"{}\",\"draws_used\":{},\"draws_recorded\":{},\"underflow\":{},\"covers_hit\":[{}]}}",
        e.name,
        outcome,
        esc(&detail),
        src.pos,
        src.vals.len(),
        src.underflow,
        src.hits.iter().map(|h| format!("\"{}\"", esc(h))).collect::<Vec<_>>().join(",")
    );
}
