//! Machinery self-test (run by `check.py --setup`): pushes known vectors and
//! pseudo-random inputs through the oracles and through every registered
//! harness body *natively*, against the real library build. This is a sanity
//! check of harness + oracle code, not a deciding step of any property.
use mctp_verif::bodies::dec::ref_decode;
use mctp_verif::oracle::ref_crc8;
use mctp_verif::registry::REGISTRY;
use mctp_verif::src::{AssumeViolated, ReplaySrc};
use std::panic;

fn main() {
    let seed: u64 = std::env::var("VERIF_SEED").ok().and_then(|s| s.parse().ok()).unwrap_or(0);
    let mut bad = 0;
    // vectors taken from the repository's own tests
    let spdm: [u8; 14] = [0x44, 0x0f, 0x0a, 0x69, 0x01, 0x22, 0x34, 0xc8, 0x05, 0x10, 0x84, 0x00, 0x00, 0x9c];
    let spdm2: [u8; 18] = [0x68, 0x0f, 0x0e, 0x45, 0x01, 0x34, 0x22, 0xc8, 0x05, 0x10, 0x04, 0x00, 0x00, 0x00, 0x01, 0x00, 0x12, 0x97];
    let mut pci = [0u8; 46];
    pci[..13].copy_from_slice(&[0x46, 0xf, 0x2a, 0x17, 0x1, 0x23, 0xb, 0xc0, 0x7e, 0x14, 0x14, 0x0, 0x1]);
    pci[45] = 0x42;
    for (name, v) in [("spdm one", &spdm[..]), ("spdm two", &spdm2[..]), ("pci", &pci[..])] {
        let n = v.len();
        if ref_crc8(&v[..n - 1]) != v[n - 1] || ref_crc8(v) != 0 {
            println!("SELFTEST-FAIL ref_crc8 disagrees with the repository's test vector '{}'", name);
            bad += 1;
        }
        let r = ref_decode(v);
        if !r.accept || r.off != 9 {
            println!("SELFTEST-FAIL ref_decode rejects the repository's test vector '{}'", name);
            bad += 1;
        }
    }
    // smbus-pec's documented example: PEC of [0xAB, 0xCD] style check against the crate itself
    for len in 0..40usize {
        let data: Vec<u8> = (0..len).map(|i| (i as u8).wrapping_mul(37).wrapping_add(seed as u8)).collect();
        if ref_crc8(&data) != smbus_pec_ref(&data) {
            println!("SELFTEST-FAIL ref_crc8 != table-free reference at len {}", len);
            bad += 1;
        }
    }
    // every harness body, natively, on pseudo-random draws
    panic::set_hook(Box::new(|_| {}));
    let mut ran = 0u64;
    let mut completed = 0u64;
    for e in REGISTRY.iter() {
        let tier = e.name.split("__").nth(1).unwrap_or("");
        if tier == "w" {
            continue; // asserts the property on a known-finding class: expected to fail
        }
        let rounds = if e.name.contains("247") || e.name.contains("245") || e.name.contains("249") || e.name.contains("len259") { 3 } else { 400 };
        for k in 0..rounds {
            let mut src = ReplaySrc::new(vec![]);
            src.rng = 0x9E3779B97F4A7C15 ^ (seed.wrapping_mul(0x100000001B3)) ^ ((k as u64) << 32) ^ (ran + 1);
            let f = e.f;
            let res = panic::catch_unwind(panic::AssertUnwindSafe(|| f(&mut src)));
            ran += 1;
            match res {
                Ok(()) => {
                    completed += 1;
                    if !src.fails.is_empty() {
                        println!("SELFTEST-FAIL {} round {}: {}", e.name, k, src.fails.join(" | "));
                        bad += 1;
                    }
                }
                Err(p) => {
                    if p.downcast_ref::<AssumeViolated>().is_none() && e.owns_panics {
                        println!("SELFTEST-FAIL {} round {}: library panic on an input outside every known-finding class", e.name, k);
                        bad += 1;
                    }
                    if !src.fails.is_empty() {
                        println!("SELFTEST-FAIL {} round {}: {}", e.name, k, src.fails.join(" | "));
                        bad += 1;
                    }
                }
            }
        }
    }
    println!("selftest: {} native harness executions ({} ran to completion, the rest stopped at an assumption), {} problems", ran, completed, bad);
    std::process::exit(if bad == 0 { 0 } else { 1 });
}

/// Second, differently structured CRC-8 (byte-wise xor then 8 conditional shifts).
fn smbus_pec_ref(data: &[u8]) -> u8 {
    let mut crc = 0u8;
    for b in data {
        crc ^= *b;
        for _ in 0..8 {
            crc = if crc & 0x80 != 0 { (crc << 1) ^ 0x07 } else { crc << 1 };
        }
    }
    crc
}
