//! Input-class predicates of the open known findings (/verif/known_findings.txt).
//! A predicate is `false` when its finding is not listed as open (the driver
//! passes cargo feature `kf_<id>` for every open finding), so closing a
//! finding automatically puts its inputs back under the full property.

/// Header the decoder supports: version 1, reserved 0, IC clear, known type.
pub fn hdr_supported(b: &[u8]) -> bool {
    b.len() >= 9 && b[4] == 0x01 && (b[8] >> 7) == 0 && crate::oracle::supported_type(b[8] & 0x7F)
}

fn is_control(b: &[u8]) -> bool {
    hdr_supported(b) && (b[8] & 0x7F) == 0
}

/// Control request whose command code has an `unimplemented!()` length-table entry.
pub fn dec_req_unimpl_class(b: &[u8]) -> bool {
    is_control(b) && b.len() >= 12 && (b[9] >> 7) == 1 && b[10] >= 0x09
}
pub fn dec_req_unimpl(b: &[u8]) -> bool {
    cfg!(feature = "kf_dec_req_unimpl") && dec_req_unimpl_class(b)
}

/// Success control response whose command code has an `unimplemented!()` length-table entry.
pub fn dec_resp_unimpl_class(b: &[u8]) -> bool {
    is_control(b) && b.len() >= 13 && (b[9] >> 7) == 0 && b[11] == 0 && (b[10] == 0x07 || b[10] >= 0x0A)
}
pub fn dec_resp_unimpl(b: &[u8]) -> bool {
    cfg!(feature = "kf_dec_resp_unimpl") && dec_resp_unimpl_class(b)
}

/// Control response carrying a completion code outside 0..=5.
pub fn dec_cc_range_class(b: &[u8]) -> bool {
    is_control(b) && b.len() >= 13 && (b[9] >> 7) == 0 && b[11] >= 6
}
pub fn dec_cc_range(b: &[u8]) -> bool {
    cfg!(feature = "kf_dec_cc_range") && dec_cc_range_class(b)
}

/// Any open decoder panic class.
pub fn dec_any(b: &[u8]) -> bool {
    dec_req_unimpl(b) || dec_resp_unimpl(b) || dec_cc_range(b)
}

// ------------------------------------------------------------------ process_packet classes
// `pec_ok`: last byte is the CRC-8 of the rest (computed once by the caller).

fn is_request(b: &[u8], cmd: u8) -> bool {
    is_control(b) && b.len() >= 12 && (b[9] >> 7) == 1 && b[10] == cmd
}

/// Accepted control request with the Reserved command code 0x00 (`unreachable!()`).
pub fn proc_cmd_reserved_class(b: &[u8], pec_ok: bool) -> bool {
    pec_ok && is_request(b, 0x00)
}
/// Accepted Set Endpoint ID request whose operation byte is 2 (`unimplemented!()`) or >= 4 (`unreachable!()`).
pub fn proc_seteid_op_class(b: &[u8], pec_ok: bool) -> bool {
    pec_ok && is_request(b, 0x01) && b.len() == 14 && (b[11] == 2 || b[11] >= 4)
}
/// Accepted Get Vendor Defined Message Support request whose selector is 0xFF
/// (u8 overflow) or not below the number of configured sets (index out of bounds).
pub fn proc_vendor_selector_class(b: &[u8], pec_ok: bool, nv: usize) -> bool {
    pec_ok && is_request(b, 0x06) && b.len() == 13 && (b[11] == 0xFF || b[11] as usize >= nv)
}
/// Accepted Resolve Endpoint ID / Allocate Endpoint IDs request (`unimplemented!()`).
pub fn proc_cmd_unimpl_class(b: &[u8], pec_ok: bool) -> bool {
    pec_ok && ((is_request(b, 0x07) && b.len() == 13) || (is_request(b, 0x08) && b.len() == 15))
}
pub fn proc_any(b: &[u8], pec_ok: bool, nv: usize) -> bool {
    (cfg!(feature = "kf_proc_cmd_reserved") && proc_cmd_reserved_class(b, pec_ok))
        || (cfg!(feature = "kf_proc_seteid_op") && proc_seteid_op_class(b, pec_ok))
        || (cfg!(feature = "kf_proc_vendor_selector") && proc_vendor_selector_class(b, pec_ok, nv))
        || (cfg!(feature = "kf_proc_cmd_unimpl") && proc_cmd_unimpl_class(b, pec_ok))
}
