#!/usr/bin/env python3
"""Driver for the solver-based checks of libmctp (see DESIGN.md).

  check.py <PID> [--tier quick|thorough]     decide one property
  check.py --replay <file>                    replay a recorded counterexample natively
  check.py --setup                            build + self-test the machinery
  check.py --list                             list harnesses per property

Exit 0: property held on everything explored (known findings only print KNOWN-FINDING lines)
Exit 1: a violation that reproduces against the real build:  VIOLATION property=<id> replay=<path>
Exit 2: inconclusive (timeout, unwinding bound too small, vacuity witness not reached, tool error)
"""
import argparse
import json
import os
import re
import shlex
import shutil
import subprocess
import sys
import time

VERIF = os.path.dirname(os.path.abspath(__file__))
# The registered checks always run against /repo. VERIF_REPO / VERIF_OUT exist only so that the
# machinery itself can be tested against a mutated scratch copy of the repository without touching
# /repo or the committed evidence (tools/seeded.py).
REPO = os.environ.get("VERIF_REPO", "/repo")
OUT = os.environ.get("VERIF_OUT", VERIF)
HARNESS = os.path.join(VERIF, "harness")
WORK = os.path.join(OUT, ".work")
EVID = os.path.join(OUT, "evidence")
REPLAYS = os.path.join(OUT, "replays")
KF_FILE = os.path.join(VERIF, "known_findings.txt")
PIDS = ["C%02d" % i for i in range(1, 20)]

ENV = dict(os.environ)
ENV["CARGO_NET_OFFLINE"] = "true"
ENV.pop("RUSTFLAGS", None)


def log(*a):
    print(*a, flush=True)


# --------------------------------------------------------------------------
# known findings
# --------------------------------------------------------------------------
def load_known_findings():
    """Lines:  open: key=value key="quoted value" ...   |  fixed: ...   | # comment"""
    out = []
    if not os.path.exists(KF_FILE):
        return out
    for ln in open(KF_FILE):
        ln = ln.strip()
        if not ln or ln.startswith("#"):
            continue
        kind, _, rest = ln.partition(":")
        kind = kind.strip()
        if kind not in ("open", "fixed"):
            raise RuntimeError("known_findings.txt: bad line: " + ln)
        d = {"kind": kind}
        for tok in shlex.split(rest):
            if "=" in tok:
                k, _, v = tok.partition("=")
                d[k] = v
        out.append(d)
    return out


def kf_features(kfs):
    return sorted({"kf_" + k["id"].replace("-", "_") for k in kfs if k["kind"] == "open"})


# --------------------------------------------------------------------------
# state-shape guard (DESIGN 3.6): the harnesses set every mutable cell of the
# context; refuse to conclude anything if a field appears that they don't know.
# --------------------------------------------------------------------------
KNOWN_FIELDS = {
    "MCTPSMBusContext": {"request", "response", "uuid", "msg_types", "vendor_id_selector", "vendor_ids"},
    "MCTPSMBusContextRequest": {"address", "eid"},
    "MCTPSMBusContextResponse": {"address", "eid"},
}


def state_shape_problems():
    probs = []
    files = {"MCTPSMBusContext": "src/smbus.rs", "MCTPSMBusContextRequest": "src/smbus_request.rs",
             "MCTPSMBusContextResponse": "src/smbus_response.rs"}
    for st, f in files.items():
        try:
            txt = open(os.path.join(REPO, f)).read()
        except OSError as e:
            probs.append("cannot read %s: %s" % (f, e))
            continue
        m = re.search(r"pub struct %s(?:<[^>]*>)?\s*\{(.*?)\n\}" % st, txt, re.S)
        if not m:
            probs.append("struct %s not found in %s" % (st, f))
            continue
        fields = set(re.findall(r"^\s*(?:pub(?:\([a-z]+\))?\s+)?([a-z_0-9]+)\s*:", m.group(1), re.M))
        extra = fields - KNOWN_FIELDS[st]
        if extra:
            probs.append("struct %s has fields the harnesses do not model: %s" % (st, sorted(extra)))
    return probs


# --------------------------------------------------------------------------
# native build / replay
# --------------------------------------------------------------------------
def native_build(workdir, release=False, bin_name="replay"):
    tdir = os.path.join(workdir, "native")
    cmd = ["cargo", "build", "--offline", "--bin", bin_name, "--target-dir", tdir]
    feats = kf_features(load_known_findings())
    if feats:
        cmd += ["--features", ",".join(feats)]
    if release:
        cmd.append("--release")
    p = subprocess.run(cmd, cwd=HARNESS, env=ENV, stdout=subprocess.PIPE, stderr=subprocess.STDOUT, text=True)
    if p.returncode != 0:
        log(p.stdout[-4000:])
        raise RuntimeError("native build failed")
    return os.path.join(tdir, "release" if release else "debug", bin_name)


def registry(workdir):
    exe = native_build(workdir)
    out = subprocess.run([exe, "--list"], stdout=subprocess.PIPE, text=True, check=True).stdout
    return exe, json.loads(out)


def native_replay(exe, harness, values):
    os.makedirs(WORK, exist_ok=True)
    vf = os.path.join(WORK, "vals-%d-%s.json" % (os.getpid(), harness))
    with open(vf, "w") as f:
        json.dump(values, f)
    try:
        p = subprocess.run([exe, harness, vf], stdout=subprocess.PIPE, stderr=subprocess.PIPE, text=True, timeout=120)
    finally:
        os.unlink(vf)
    for ln in p.stdout.splitlines():
        if ln.startswith("{"):
            return json.loads(ln)
    return {"harness": harness, "outcome": "tool_error", "detail": (p.stdout + p.stderr)[-500:]}


# --------------------------------------------------------------------------
# kani
# --------------------------------------------------------------------------
def kani_base_cmd(tdir, feats):
    cmd = ["cargo", "kani", "--lib", "--target-dir", tdir, "--no-assertion-reach-checks"]
    if feats:
        cmd += ["--features", ",".join(feats)]
    return cmd


def run_kani(workdir, harness_names, feats, jobs, per_harness_timeout, overall_timeout):
    tdir = os.path.join(workdir, "kani")
    resf = os.path.join(workdir, "kani-result.json")
    logf = os.path.join(workdir, "kani.log")
    if os.path.exists(resf):
        os.unlink(resf)
    cmd = kani_base_cmd(tdir, feats) + ["--exact"]
    for h in harness_names:
        cmd += ["--harness", "registry::proofs::" + h]
    cmd += ["-j", str(jobs), "--output-format", "terse", "-Z", "unstable-options",
            "--harness-timeout", "%ds" % per_harness_timeout, "--export-json", resf]
    t0 = time.time()
    with open(logf, "w") as lf:
        try:
            p = subprocess.run(cmd, cwd=HARNESS, env=ENV, stdout=lf, stderr=subprocess.STDOUT, timeout=overall_timeout)
            rc = p.returncode
        except subprocess.TimeoutExpired:
            rc = -9
    wall = time.time() - t0
    data = None
    if os.path.exists(resf):
        try:
            data = json.load(open(resf))
        except Exception:
            data = None
    return rc, wall, data, logf, cmd


def playback_values(workdir, harness, feats, timeout):
    """Re-run one failed harness with concrete playback (cover witnesses compiled out, so every
    trace belongs to a failing check) and extract the recorded draws of every trace."""
    tdir = os.path.join(workdir, "kani")
    cmd = kani_base_cmd(tdir, feats + ["nocov"]) + ["--exact", "--harness", "registry::proofs::" + harness,
                                                    "-Z", "concrete-playback", "--concrete-playback=print"]
    try:
        p = subprocess.run(cmd, cwd=HARNESS, env=ENV, stdout=subprocess.PIPE, stderr=subprocess.STDOUT, text=True,
                           timeout=timeout)
    except subprocess.TimeoutExpired:
        return [], "playback timed out"
    out = p.stdout
    sets = []
    for m in re.finditer(r"let concrete_vals: Vec<Vec<u8>> = vec!\[(.*?)\n\s*\];", out, re.S):
        vals = []
        for vm in re.finditer(r"vec!\[([0-9,\s]*)\]", m.group(1)):
            body = vm.group(1).strip()
            vals.append([int(x) for x in body.split(",") if x.strip()] if body else [])
        if vals not in sets:
            sets.append(vals)
    if not sets:
        return [], out[-1500:]
    return sets, None


CBMC_FLAGS = ["--no-malloc-may-fail", "--no-undefined-shift-check", "--no-signed-overflow-check", "--nan-check",
              "--no-self-loops-to-assumptions", "--no-pointer-primitive-check", "--object-bits", "16",
              "--sat-solver", "cadical", "--slice-formula"]


def goto_binary(data, harness):
    for m in (data or {}).get("harness_metadata", []):
        if m.get("pretty_name", "").split("::")[-1] == harness:
            g = m.get("goto_file", "")
            if g.endswith(".symtab.out"):
                g = g[:-len(".symtab.out")] + ".out"
            if os.path.exists(g):
                return g
    return None


def trace_values(data, harness, unwind, bad_checks, timeout, max_props=3):
    """Counterexamples straight from CBMC: re-solve only the failing properties of the goto binary
    Kani left behind, with --trace. Every draw of the harness is kept in the sliced formula by the
    `keep!` assumptions in src.rs, so the any_raw return values of the trace are all draws in order."""
    g = goto_binary(data, harness)
    if not g:
        return [], "goto binary of %s not found" % harness
    base = ["cbmc"] + CBMC_FLAGS + ["--unwind", str(unwind), g]
    try:
        p = subprocess.run(base + ["--show-properties", "--json-ui"], stdout=subprocess.PIPE, stderr=subprocess.DEVNULL,
                           text=True, timeout=300)
        props = [x for x in json.loads(p.stdout) if isinstance(x, dict) and "properties" in x][0]["properties"]
    except Exception as e:
        return [], "cbmc --show-properties failed: %s" % e
    want = []
    for c in bad_checks:
        loc = c.get("location") or {}
        for pr in props:
            sl = pr.get("sourceLocation", {})
            if (pr.get("description") == c.get("description") and str(sl.get("line")) == str(loc.get("line"))
                    and os.path.basename(sl.get("file", "")) == os.path.basename(loc.get("file", ""))
                    and pr["name"] not in want):
                want.append(pr["name"])
    if not want:
        return [], "failing checks not found among the goto binary's properties"
    cmd = base + ["--trace", "--json-ui"]
    for n in want[:max_props]:
        cmd += ["--property", n]
    tf = os.path.join(WORK, "trace-%d-%s.json" % (os.getpid(), harness))
    try:
        with open(tf, "w") as f:
            subprocess.run(cmd, stdout=f, stderr=subprocess.DEVNULL, timeout=timeout)
        out = json.load(open(tf))
    except subprocess.TimeoutExpired:
        return [], "cbmc trace run timed out"
    except Exception as e:
        return [], "cbmc trace run failed: %s" % e
    finally:
        if os.path.exists(tf):
            os.unlink(tf)
    sets = []
    for blk in out:
        if not isinstance(blk, dict):
            continue
        if "result" in blk:
            rs = blk["result"]
        elif "trace" in blk:
            rs = [dict(blk, status="FAILURE")]
        else:
            continue
        for r in rs:
            if r.get("status") != "FAILURE" or "trace" not in r:
                continue
            vals = []
            expanded = None  # lhs of a whole-array step whose elements were taken already
            for st in r["trace"]:
                if st.get("stepType") != "assignment":
                    continue
                lhs = str(st.get("lhs", ""))
                if not lhs.startswith("goto_symex$$return_value"):
                    continue
                if not str((st.get("sourceLocation") or {}).get("function", "")).startswith("kani::any_raw_"):
                    continue
                v = st.get("value") or {}
                if "elements" in v and "[" not in lhs:
                    # arrays above CBMC's field-sensitivity limit (64) come as one step with all elements
                    els = {int(e["index"]): e["value"] for e in v["elements"] if "index" in e}
                    if els:
                        for i in range(max(els) + 1):
                            b = (els.get(i) or {}).get("binary")
                            vals.append([int(b, 2) & 0xFF] if b else [0])
                        expanded = lhs
                    continue
                if expanded and lhs.startswith(expanded + "["):
                    continue
                expanded = None
                b, w = v.get("binary"), v.get("width")
                if b is None or not w or w % 8:
                    continue
                n = int(b, 2)
                vals.append([(n >> (8 * i)) & 0xFF for i in range(w // 8)])
            if vals and vals not in sets:
                sets.append(vals)
    if not sets:
        return [], "no failing trace in cbmc output"
    return sets, None


# --------------------------------------------------------------------------
# result classification
# --------------------------------------------------------------------------
FAIL_OUTCOMES = ("assert_fail", "panic")
MAX_REPLAYS = 3
TAG_RE = re.compile(r"^\[(C\d\d)(\?)?\] ")


def reproduces(native, pid, owns_panics):
    """Does a native replay outcome confirm a violation of `pid`?"""
    if native["outcome"] == "assert_fail":
        return ("[%s]" % pid) in native.get("detail", "")
    if native["outcome"] == "panic":
        return owns_panics
    return False


def short_loc(c):
    loc = c.get("location") or {}
    f = loc.get("file", "")
    return "%s:%s" % (os.path.basename(f), loc.get("line", "?"))


def check_sig(c):
    """(file basename, function, description) — no line numbers."""
    loc = c.get("location") or {}
    return (os.path.basename(loc.get("file", "")), c.get("function", ""), c.get("description", ""))


def sig_matches(sig, pattern):
    """pattern 'file|function-substring|description-substring'"""
    parts = pattern.split("|")
    if len(parts) != 3:
        return False
    f, fn, d = parts
    return (f == "" or f == sig[0]) and fn in sig[1] and d in sig[2]


def is_library_code(c):
    loc = c.get("location") or {}
    f = loc.get("file", "")
    return f.startswith(REPO + "/") or "/bitfield-" in f or "/smbus-pec-" in f or "/embedded-crc-macros-" in f


def classify_harness(res, pid, owns_panics):
    """Returns dict with lists: own_fail, panic_fail, foreign_fail, unwind_fail, covers_unsat, covers_sat, ok_checks"""
    out = {"own_fail": [], "panic_fail": [], "foreign_fail": [], "unwind_fail": [], "covers_unsat": [],
           "covers_sat": [], "n_checks": 0, "n_success": 0, "tag_ok": set(), "undetermined": []}
    for c in (res.get("checks") or []):
        cat = c.get("category", "")
        st = c.get("status", "")
        desc = c.get("description", "")
        m = TAG_RE.match(desc)
        if m and m.group(1) != pid:
            continue  # assertion / witness of another property: dead code in this instantiation
        if cat == "cover":
            optional = bool(m and m.group(2))
            if st == "Satisfied":
                out["covers_sat"].append(desc)
            elif not optional:
                out["covers_unsat"].append(desc)
            continue
        if not owns_panics and not m and cat != "unwind" and "unwinding assertion" not in desc:
            # a panic/overflow/pointer check of the code under test: an obligation only for the
            # properties that own panic-freedom; elsewhere a failing one merely cuts the path
            if st == "Failure":
                out["foreign_fail"].append(c)
            continue
        out["n_checks"] += 1
        if st == "Success":
            out["n_success"] += 1
            m = TAG_RE.match(desc)
            if m and m.group(1) == pid:
                out["tag_ok"].add(desc)
            continue
        if st in ("Undetermined", "Unreachable"):
            # Kani marks everything undetermined when an unwinding assertion failed
            if st == "Undetermined":
                out["undetermined"].append(c)
            else:
                out["n_success"] += 1
            continue
        # Failure
        if cat == "unwind" or "unwinding assertion" in desc:
            out["unwind_fail"].append(c)
            continue
        m = TAG_RE.match(desc)
        if m:
            (out["own_fail"] if m.group(1) == pid else out["foreign_fail"]).append(c)
        elif "unsupported" in cat or "Kani does not support" in desc or cat == "unsupported_construct":
            out["foreign_fail"].append(c)
        else:
            (out["panic_fail"] if owns_panics else out["foreign_fail"]).append(c)
    return out


# --------------------------------------------------------------------------
# main check
# --------------------------------------------------------------------------
def select(reg, pid, tier, kfs, seed=0):
    """main harnesses + [(finding, [witness harnesses])].  A 'w' harness asserts the property on the
    input class of a finding: claimed by an open finding it is that finding's witness (expected to
    fail with the listed signatures only), otherwise it is an ordinary quick harness."""
    pre = pid.lower() + "__"
    mine = [e for e in reg if e["name"].startswith(pre)]
    wit = [e for e in mine if e["name"].split("__")[1] == "w"]
    claimed = set()
    witness = []
    for k in kfs:
        if k["kind"] != "open" or k.get("property") != pid:
            continue
        es = []
        for pat in k.get("witness", "").split(","):
            pat = pat.strip()
            if not pat:
                continue
            got = [e for e in wit if (e["name"].startswith(pat[:-1]) if pat.endswith("*") else e["name"] == pat)]
            if not got:
                raise RuntimeError("known finding %s: witness harness %s not in registry" % (k["id"], pat))
            es += got
        for e in es:
            claimed.add(e["name"])
        witness.append((k, es))
    main = []
    spot = {}
    for e in mine:
        t = e["name"].split("__")[1]
        if t == "q" or (t == "t" and tier == "thorough") or (t == "w" and e["name"] not in claimed):
            main.append(e)
        elif t == "s":
            # seed-chosen spot instances: one per group (name without its trailing number)
            spot.setdefault(re.sub(r"\d+$", "", e["name"]), []).append(e)
    for grp in sorted(spot):
        es = spot[grp]
        main.append(es[seed % len(es)])
        if tier == "thorough" and len(es) > 1:
            main.append(es[(seed * 7 + 3) % len(es)])
    return main, witness


def cbmc_stats(data):
    st = {}
    for c in (data or {}).get("cbmc", []):
        st[c["harness_id"].split("::")[-1]] = c.get("cbmc_stats") or {}
    return st


def do_check(pid, tier, seed, jobs, keep):
    t_start = time.time()
    workdir = os.path.join(WORK, pid)
    os.makedirs(workdir, exist_ok=True)
    os.makedirs(EVID, exist_ok=True)
    evid_path = os.path.join(EVID, pid + ".json")
    kfs = load_known_findings()
    feats = kf_features(kfs)
    problems = state_shape_problems()
    exe, reg = registry(workdir)
    main, witness = select(reg, pid, tier, kfs, seed)
    only = os.environ.get("VERIF_ONLY")  # debugging aid: restrict to harnesses whose name contains this
    if only:
        main = [e for e in main if any(o in e["name"] for o in only.split(","))]
        witness = []
    if not main:
        log("no harness registered for", pid)
        return 2
    names = [e["name"] for e in main] + [e["name"] for _, es in witness for e in es]
    own = {e["name"]: e["owns_panics"] for e in reg}
    unwind = {e["name"]: e["unwind"] for e in reg}
    per_to = 1500 if tier == "quick" else 7200
    overall = 3000 if tier == "quick" else 6 * 3600
    log("[%s] tier=%s seed=%d harnesses=%d (+%d witness) jobs=%d features=%s" %
        (pid, tier, seed, len(main), sum(len(es) for _, es in witness), jobs, ",".join(feats) or "-"))
    rc, wall_k, data, logf, cmd = run_kani(workdir, names, feats, jobs, per_to, overall)
    inconclusive = list(problems)
    if data is None:
        inconclusive.append("kani produced no result file (rc=%s); see %s" % (rc, logf))
        results = {}
    else:
        results = {r["harness_id"].split("::")[-1]: r for r in data["verification_results"]["results"]}
    stats = cbmc_stats(data)

    violations = []      # (harness, checks)
    kf_lines = []
    per_h = {}
    functions = set()
    samples = []
    all_tag_ok = set()
    n_checks = n_success = 0
    covers_total = covers_sat = 0

    distinct_covers = set()

    def record(hname, cl):
        nonlocal n_checks, n_success, covers_total, covers_sat
        n_checks += cl["n_checks"]
        n_success += cl["n_success"]
        covers_total += len(cl["covers_sat"]) + len(cl["covers_unsat"])
        covers_sat += len(cl["covers_sat"])
        all_tag_ok.update(cl["tag_ok"])
        distinct_covers.update(cl["covers_sat"])

    for e in main:
        h = e["name"]
        r = results.get(h)
        if r is None:
            inconclusive.append("harness %s: no result (timeout, OOM or tool error)" % h)
            per_h[h] = {"status": "no-result"}
            continue
        for c in (r.get("checks") or []):
            if is_library_code(c):
                functions.add(c.get("function", ""))
        cl = classify_harness(r, pid, own[h])
        record(h, cl)
        st = stats.get(h, {})
        per_h[h] = {
            "status": r.get("status"), "unwind": unwind[h], "checks": cl["n_checks"], "discharged": cl["n_success"],
            "covers_satisfied": cl["covers_sat"], "covers_unsatisfied": cl["covers_unsat"],
            "symex_s": st.get("runtime_symex_s"), "solver_s": st.get("runtime_solver_s"),
            "program_steps": st.get("size_program_expression"), "vccs": st.get("vccs_generated"),
            "duration_ms": r.get("duration_ms"),
            "ignored_foreign_failures": sorted({"%s @ %s" % (c["description"], short_loc(c)) for c in cl["foreign_fail"]}),
        }
        if cl["unwind_fail"]:
            inconclusive.append("harness %s: unwinding assertion failed (bound %d too small): %s" %
                                (h, unwind[h], short_loc(cl["unwind_fail"][0])))
            continue
        if cl["undetermined"] and not (cl["own_fail"] or cl["panic_fail"]):
            inconclusive.append("harness %s: %d checks undetermined" % (h, len(cl["undetermined"])))
        bad = cl["own_fail"] + cl["panic_fail"]
        if bad:
            violations.append((h, bad))
        elif r.get("status") != "Success" and not cl["foreign_fail"] and not cl["covers_unsat"]:
            inconclusive.append("harness %s: status %s and no check result — CBMC did not finish (per-harness "
                                "timeout or out of memory)" % (h, r.get("status")))
        if cl["covers_unsat"] and not bad:
            inconclusive.append("harness %s: vacuity witness not reachable: %s" % (h, cl["covers_unsat"]))
        if len(samples) < 12:
            for d in sorted(cl["tag_ok"])[:2]:
                samples.append({"harness": h, "obligation": d, "status": "SUCCESS"})
            for d in cl["covers_sat"][:1]:
                samples.append({"harness": h, "cover_witness": d, "status": "SATISFIED"})

    # witnesses of open known findings
    kf_report = []
    for k, es in witness:
        pats = [p for p in k.get("sig", "").split(";") if p]
        reproduced = []
        for e in es:
            h = e["name"]
            r = results.get(h)
            if r is None:
                inconclusive.append("witness %s: no result" % h)
                continue
            cl = classify_harness(r, pid, own[h])
            st = stats.get(h, {})
            per_h[h] = {"status": r.get("status"), "witness_of": k["id"], "checks": cl["n_checks"],
                        "symex_s": st.get("runtime_symex_s"), "solver_s": st.get("runtime_solver_s")}
            if cl["unwind_fail"]:
                inconclusive.append("witness %s: unwinding assertion failed" % h)
                continue
            bad = cl["own_fail"] + cl["panic_fail"]
            unlisted = [c for c in bad if not any(sig_matches(check_sig(c), p) for p in pats)]
            listed = [c for c in bad if c not in unlisted]
            if unlisted:
                violations.append((h, unlisted))
            if listed:
                reproduced.append({"witness": h, "failing_checks": sorted({"%s @ %s" % (c["description"], short_loc(c)) for c in listed})})
        if reproduced:
            kf_lines.append("KNOWN-FINDING: property=%s id=%s %s" % (pid, k["id"], k.get("what", "")))
            kf_report.append({"id": k["id"], "reproduced": True, "witnesses": reproduced})
        else:
            kf_report.append({"id": k["id"], "reproduced": False})
            log("note: known finding %s did not reproduce in this run" % k["id"])

    # replay every violation natively before reporting it
    confirmed = []
    unconfirmed = []
    if violations:
        os.makedirs(REPLAYS, exist_ok=True)
        exe_rel = native_build(workdir, release=True)
        # cheapest harnesses first; counterexample traces of the first MAX_REPLAYS are extracted in parallel
        violations.sort(key=lambda hb: (results.get(hb[0], {}).get("duration_ms") or 0))
        import concurrent.futures
        head = violations[:MAX_REPLAYS]
        with concurrent.futures.ThreadPoolExecutor(max_workers=MAX_REPLAYS) as ex:
            futs = {h: ex.submit(trace_values, data, h, unwind[h], bad, per_to) for h, bad in head}
        traced = {h: f.result() for h, f in futs.items()}
        for idx, (h, bad) in enumerate(violations):
            descs = sorted({"%s @ %s" % (c["description"], short_loc(c)) for c in bad})
            log("harness %s: solver reports %d failing check(s): %s" % (h, len(bad), "; ".join(descs)[:600]))
            if h not in traced:
                log("  (not replayed: only the %d cheapest failing harnesses of a run are replayed)" % MAX_REPLAYS)
                continue
            sets, err = traced[h]
            if not sets:
                log("  (cbmc trace extraction failed: %s; falling back to Kani concrete playback)" % err)
                sets, err = playback_values(workdir, h, feats, per_to)
            rec = {"property": pid, "harness": h, "tier": tier, "seed": seed, "failing_checks": descs,
                   "features": feats, "values": None, "owns_panics": own[h]}
            path = os.path.join(REPLAYS, "%s-%s.json" % (pid, h))
            if not sets:
                rec["playback_error"] = err
                unconfirmed.append((h, "no concrete values: %s" % (err or "")[:300]))
            else:
                outcomes = []
                for vals in sets:
                    dev = native_replay(exe, h, vals)
                    rel = native_replay(exe_rel, h, vals)
                    outcomes.append((dev["outcome"], rel["outcome"]))
                    if reproduces(dev, pid, own[h]) or reproduces(rel, pid, own[h]):
                        if rec["values"] is None:
                            rec.update({"values": vals, "native_dev": dev, "native_release": rel})
                        rec.setdefault("reproduced", []).append(
                            {"dev": dev["outcome"], "dev_detail": dev["detail"], "release": rel["outcome"],
                             "release_detail": rel["detail"]})
                if rec["values"] is not None:
                    confirmed.append(h)
                else:
                    rec["values"] = sets[0]
                    unconfirmed.append((h, "native replay outcomes (dev, release) = %s" % outcomes))
            with open(path, "w") as f:
                json.dump(rec, f, indent=1)
            if h in confirmed:
                for r_ in rec["reproduced"][:4]:
                    log("  reproduced natively: dev=%s (%s) release=%s" % (r_["dev"], r_["dev_detail"][:200], r_["release"]))
                log("VIOLATION property=%s replay=%s" % (pid, path))
    for h, why in unconfirmed:
        inconclusive.append("harness %s: solver counterexample did not reproduce natively (%s)" % (h, why))

    for ln in kf_lines:
        log(ln)

    wall = time.time() - t_start
    symex = sum((v.get("symex_s") or 0) for v in per_h.values())
    solver = sum((v.get("solver_s") or 0) for v in per_h.values())
    evidence = {
        "property_id": pid, "tier": tier, "seed": seed, "level": "model_checking",
        "coverage": {
            "evaluations": n_checks + covers_total,
            "distinct_nontrivial": len(all_tag_ok) + len(distinct_covers),
            "rule": "evaluations = solver queries of this run: CBMC verification conditions that are obligations of this "
                    "property (tagged assertions plus, on harnesses where the property owns panic-freedom, every "
                    "panic/overflow/bounds/pointer check of the compiled library) plus the cover-witness queries, summed "
                    "over harness instances; distinct_nontrivial = number of DISTINCT (by text) tagged assertions of this "
                    "property that came back SUCCESS plus DISTINCT (by text) vacuity witnesses that came back SATISFIED — "
                    "the same assertion discharged on 60 instances counts once",
            "obligations": n_checks, "discharged": n_success,
            "cover_witnesses": covers_total, "cover_witnesses_satisfied": covers_sat,
            "samples": samples[:12] or [{"note": "no obligation discharged"}],
            "harnesses": per_h,
            "functions_encoded": sorted(f for f in functions if f)[:200],
            "solver": "CBMC 6.11 / CaDiCaL via Kani 0.68 (bit-precise, dev profile: overflow checks on)",
            "symex_seconds": round(symex, 2), "solver_seconds": round(solver, 2), "kani_wall_seconds": round(wall_k, 1),
            "known_findings": kf_report,
            "inconclusive": inconclusive,
            "exhaustive": False,
            "checker_cmd": " ".join(shlex.quote(x) for x in cmd),
            "bounds": "see DESIGN.md section 3.4; per-harness unwind bound and sizes are in 'harnesses' (sizes are part of the harness name)",
        },
        "assumptions": ASSUMPTIONS.get(pid, []) + COMMON_ASSUMPTIONS,
        "wall_s": round(wall, 1),
        "violations": len(confirmed),
    }
    with open(evid_path, "w") as f:
        json.dump(evidence, f, indent=1)
    if not keep:
        shutil.rmtree(os.path.join(workdir, "kani"), ignore_errors=True)
        shutil.rmtree(os.path.join(workdir, "native"), ignore_errors=True)
    if confirmed:
        return 1
    if inconclusive:
        for i in inconclusive:
            log("INCONCLUSIVE: " + i)
        return 2
    log("[%s] held on everything explored: %d/%d obligations discharged, %d/%d vacuity witnesses reached, %.0fs" %
        (pid, n_success, n_checks, covers_sat, covers_total, wall))
    return 0


COMMON_ASSUMPTIONS = [
    "trusted: rustc MIR -> Kani 0.68 -> CBMC 6.11 -> CaDiCaL; Kani's models of core (slices, memcpy, iterators)",
    "trusted: the reference oracles in /verif/harness/src/oracle.rs and the expected-value expressions in the harness bodies",
    "bounded: every claim is for the sizes/lengths encoded in the harness names and DESIGN.md section 3.4 only",
    "smbus-pec built without its lookup-table feature (the configuration libmctp uses)",
    "library panics are counted as violations only for the properties that own panic-freedom of that entry point (DESIGN 3.2)",
]
try:
    ASSUMPTIONS = json.load(open(os.path.join(VERIF, "assumptions.json")))
except Exception:
    ASSUMPTIONS = {}


def do_replay(path):
    rec = json.load(open(path))
    pid = rec["property"]
    workdir = os.path.join(WORK, "replay")
    os.makedirs(workdir, exist_ok=True)
    exe = native_build(workdir)
    exe_rel = native_build(workdir, release=True)
    dev = native_replay(exe, rec["harness"], rec["values"])
    rel = native_replay(exe_rel, rec["harness"], rec["values"])
    log("dev:     %s %s" % (dev["outcome"], dev.get("detail", "")))
    log("release: %s %s" % (rel["outcome"], rel.get("detail", "")))
    owns = rec.get("owns_panics", True)
    if reproduces(dev, pid, owns) or reproduces(rel, pid, owns):
        log("VIOLATION property=%s replay=%s" % (pid, path))
        return 1
    return 0


def do_setup():
    workdir = os.path.join(WORK, "setup")
    os.makedirs(workdir, exist_ok=True)
    exe, reg = registry(workdir)
    log("native replay binary built; %d harnesses registered" % len(reg))
    p = subprocess.run(["cargo", "kani", "--version"], env=ENV, stdout=subprocess.PIPE, stderr=subprocess.STDOUT, text=True)
    log(p.stdout.strip())
    probs = state_shape_problems()
    for pr in probs:
        log("WARNING: " + pr)
    st = native_build(workdir, bin_name="selftest")
    p = subprocess.run([st], env=ENV)
    return 0 if p.returncode == 0 else 1


def redirect_harness():
    """VERIF_REPO given: work on a private copy of the harness crate whose path dependency points there."""
    global HARNESS
    if REPO == "/repo":
        return
    dst = os.path.join(WORK, "harness-copy")
    shutil.rmtree(dst, ignore_errors=True)
    shutil.copytree(HARNESS, dst, ignore=shutil.ignore_patterns("target"))
    ct = os.path.join(dst, "Cargo.toml")
    txt = open(ct).read().replace('path = "/repo"', 'path = "%s"' % REPO)
    open(ct, "w").write(txt)
    HARNESS = dst


def main():
    os.makedirs(WORK, exist_ok=True)
    redirect_harness()
    ap = argparse.ArgumentParser()
    ap.add_argument("pid", nargs="?")
    ap.add_argument("--tier", default=os.environ.get("VERIF_TIER", "quick"), choices=["quick", "thorough"])
    ap.add_argument("--replay")
    ap.add_argument("--setup", action="store_true")
    ap.add_argument("--list", action="store_true")
    ap.add_argument("--jobs", type=int, default=int(os.environ.get("VERIF_JOBS", "0")))
    ap.add_argument("--keep", action="store_true", help="keep build directories (faster re-runs)")
    a = ap.parse_args()
    seed = int(os.environ.get("VERIF_SEED", "0") or 0)
    if a.setup:
        sys.exit(do_setup())
    if a.replay:
        sys.exit(do_replay(a.replay))
    if a.list:
        exe, reg = registry(os.path.join(WORK, "setup"))
        for e in reg:
            log(e["name"], e["unwind"], "own" if e["owns_panics"] else "ign")
        sys.exit(0)
    if a.pid not in PIDS:
        ap.error("property id must be one of C01..C19")
    jobs = a.jobs or min(16, os.cpu_count() or 4)
    if not a.jobs and a.tier == "thorough" and a.pid in ("C02", "C10", "C11", "C12", "C13", "C14", "C15"):
        jobs = min(jobs, 8)  # a dozen process_packet harnesses at ~3 GB each: stay within memory
    try:
        rc = do_check(a.pid, a.tier, seed, jobs, a.keep or os.environ.get("VERIF_KEEP") == "1")
    except SystemExit:
        raise
    except BaseException as e:  # an internal error of the machinery is never a verdict
        import traceback
        traceback.print_exc()
        log("INCONCLUSIVE: internal error of the checking machinery: %r" % (e,))
        rc = 2
    sys.exit(rc)


if __name__ == "__main__":
    main()
